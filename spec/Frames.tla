------------------------------- MODULE Frames -------------------------------
(***************************************************************************)
(* C09 - a precompile call is all-or-nothing across Cosmos and EVM state.   *)
(*                                                                         *)
(* A transaction is a CALL TREE (depth <= 3) of executor frames.  A frame   *)
(* is a list of steps:                                                     *)
(*   nat  - the k-th state-changing precompile call of the transaction     *)
(*          (x/staking/precompile, x/crosschain/precompile: every method   *)
(*          runs inside stateDB.ExecuteNativeAction); `fail` is the way    *)
(*          the call was built to end INSIDE the native action, after      *)
(*          partial work: "no" (succeeds), "err" (the keeper returns an    *)
(*          error: the call fails) or "panic" (the keeper code panics      *)
(*          midway: that is not an EVM failure but aborts the execution    *)
(*          of the WHOLE transaction, whoever would have caught a failure; *)
(*          the transaction is refused and nothing at all is persisted)    *)
(*   evm  - the j-th plain EVM effect (an ERC-20 transfer by the frame)    *)
(*   sub  - call of a child frame                                          *)
(*   rev / inv - REVERT / INVALID terminator                               *)
(* every call step has a mode: "propagate" (a failing callee reverts the   *)
(* calling frame) or "catch" (the caller continues).                       *)
(*                                                                         *)
(* The semantics is the EVM's: snapshot at frame entry, journal of         *)
(* effects, revert to the snapshot when the frame fails                    *)
(* (go-ethereum core/vm/evm.go Call + ethermint statedb journal with       *)
(* nativeChange entries).  Out of gas is an input: `c` says which call     *)
(* frames (slots) ran out of gas - a fact of EVM control flow measured     *)
(* under the tracer for the concrete gas limit - and the model derives     *)
(* what must be persisted.                                                 *)
(*                                                                         *)
(* The programs are data: Prog[p] is the frame table of case p (frame 1 =  *)
(* root; a sub step's k is the child's index; every call step and every    *)
(* frame carries a slot id, preorder).  Which precompile METHOD realises   *)
(* effect k is the harness's business: all methods must behave alike.      *)
(***************************************************************************)
EXTENDS Integers, Sequences, FiniteSets, TLC, Json

CONSTANTS ProgId,    \* set of case ids (strings)
          Prog,      \* [ProgId -> Seq([id, steps])], step = [t, k, mode, fail, id], fail \in {"no", "err", "panic"}
          Cuts,      \* [ProgId -> set of out-of-gas patterns (Seq(BOOLEAN) over slot ids)]
          MaxNat, MaxEvm,
          MaxTx      \* horizon: transactions per behaviour

VARIABLES nat,       \* [1..MaxNat -> Nat]  how often native effect k is persisted (Cosmos stores)
          evm,       \* [1..MaxEvm -> Nat]  how often EVM effect j is persisted (ERC-20 storage)
          status,    \* receipt status of the last transaction: "none" | "success" | "failed"
          ntx,       \* transactions executed (sender nonce)
          leak,      \* the multistore differs from that of the transaction reduced to its kept frames
          split,     \* a persisted native effect lacks its EVM-side counterpart (token debit) or vice versa
          op

svars == <<nat, evm, status, ntx, leak, split>>
vars  == <<svars, op>>

Abs == [nat |-> nat, evm |-> evm, status |-> status, ntx |-> ntx, leak |-> leak, split |-> split]

Op(name, p, c, res) == [name |-> name, p |-> p, c |-> c, res |-> res]

Init ==
  /\ nat = [k \in 1..MaxNat |-> 0] /\ evm = [j \in 1..MaxEvm |-> 0]
  /\ status = "none" /\ ntx = 0 /\ leak = FALSE /\ split = FALSE
  /\ op = Op("Init", "none", <<>>, "ok")

Rej(o) == op' = [o EXCEPT !.res = "rej"] /\ UNCHANGED svars

Frames(p)   == DOMAIN Prog[p]
Steps(p, f) == Prog[p][f].steps
IsCall(s)   == s.t \in {"nat", "evm", "sub"}
Max(S)      == CHOOSE x \in S : \A y \in S : y <= x
NSlots(p)   == Max({Prog[p][f].id : f \in Frames(p)} \cup
                   UNION {{Steps(p, f)[i].id : i \in DOMAIN Steps(p, f)} : f \in Frames(p)})
NoOog(p)    == [i \in 1..NSlots(p) |-> FALSE]

---------------------------------------------------------------------------
(* Operational semantics: execute frame f with journal `acc`; a failing    *)
(* frame returns nothing (revert to its snapshot).                         *)
RECURSIVE Exec(_, _, _), Run(_, _, _, _, _)
Dead  == [ok |-> FALSE, abort |-> FALSE, eff |-> {}]
Abort == [ok |-> FALSE, abort |-> TRUE, eff |-> {}]
Exec(p, f, c) ==
  IF c[Prog[p][f].id] THEN Dead                            \* the frame itself runs out of gas
  ELSE Run(p, f, 1, {}, c)
Run(p, f, i, acc, c) ==
  IF i > Len(Steps(p, f)) THEN [ok |-> TRUE, abort |-> FALSE, eff |-> acc]
  ELSE LET s == Steps(p, f)[i]
       IN CASE s.t \in {"rev", "inv"} -> Dead
            [] s.t \in {"nat", "evm"} ->
                 IF c[s.id]                                 \* the call cannot pay for the callee: it never runs
                 THEN (IF s.mode = "catch" THEN Run(p, f, i + 1, acc, c) ELSE Dead)
                 ELSE IF s.fail = "panic" THEN Abort        \* reached and run: the transaction is aborted
                 ELSE IF s.fail = "err"
                 THEN (IF s.mode = "catch" THEN Run(p, f, i + 1, acc, c) ELSE Dead)
                 ELSE Run(p, f, i + 1, acc \cup {<<s.t, s.k>>}, c)
            [] s.t = "sub" ->
                 LET r == Exec(p, s.k, c)
                 IN IF r.abort THEN Abort                   \* no frame catches an abort
                    ELSE IF r.ok THEN Run(p, f, i + 1, acc \cup r.eff, c)
                    ELSE IF s.mode = "catch" THEN Run(p, f, i + 1, acc, c) ELSE Dead

Apply(name, p, c) ==
  LET r == Exec(p, 1, c)
      kept == IF r.ok THEN r.eff ELSE {}
  IN IF r.abort THEN Rej(Op(name, p, c, "ok"))
     ELSE
     /\ nat' = [k \in 1..MaxNat |-> nat[k] + (IF <<"nat", k>> \in kept THEN 1 ELSE 0)]
     /\ evm' = [j \in 1..MaxEvm |-> evm[j] + (IF <<"evm", j>> \in kept THEN 1 ELSE 0)]
     /\ status' = IF r.ok THEN "success" ELSE "failed"
     /\ ntx' = ntx + 1 /\ leak' = FALSE /\ split' = FALSE
     /\ op' = Op(name, p, c, "ok")

\* the program with ample gas
RunProgram(p) == Apply("RunProgram", p, NoOog(p))
\* the program with every gas limit under which exactly the frames of pattern c run out of gas
RunProgramGas(p, c) == Apply("RunProgramGas", p, c)
\* gas limit below the intrinsic gas: the transaction is not executed at all
Intrinsic(p) == Rej(Op("Intrinsic", p, <<>>, "ok"))

Probe == op' = Op("Probe", "none", <<>>, "ok") /\ UNCHANGED svars

Next ==
  /\ ntx < MaxTx          \* horizon: nothing is claimed about later transactions (no Probe: frontier)
  /\ \/ \E p \in ProgId : RunProgram(p) \/ Intrinsic(p) \/ \E c \in Cuts[p] : RunProgramGas(p, c)
     \/ Probe

Spec == Init /\ [][Next]_vars

---------------------------------------------------------------------------
(* PROPERTY, stated without executing anything: a frame FAILS iff it ran    *)
(* out of gas, ends in REVERT/INVALID, or makes a propagating call that     *)
(* fails; an effect is KEPT iff its own call succeeded and no frame on the  *)
(* chain from the root to its frame fails.  A native call that does not     *)
(* complete its action - error OR panic - is a call that fails: whatever    *)
(* the implementation does about a panic (refuse the whole transaction, or  *)
(* fail the call), none of that call's effects may stay.  The formulas are  *)
(* therefore stated per OUTCOME of the real transaction: executed (res =    *)
(* "ok": the kept-iff-frame-kept rule with the panicking call counted as a  *)
(* failed call) or refused (res = "rej": nothing at all changed, and only a *)
(* transaction that contains such a call may be refused).                   *)
RECURSIVE Fails(_, _, _), InSub(_, _, _)
Fails(p, f, c) ==
  \/ c[Prog[p][f].id]
  \/ \E i \in DOMAIN Steps(p, f) :
       LET s == Steps(p, f)[i] IN
         \/ s.t \in {"rev", "inv"}
         \/ /\ IsCall(s) /\ s.mode = "propagate"
            /\ \/ s.t \in {"nat", "evm"} /\ (s.fail # "no" \/ c[s.id])
               \/ s.t = "sub" /\ Fails(p, s.k, c)
InSub(p, g, f) ==
  \/ g = f
  \/ \E i \in DOMAIN Steps(p, g) : Steps(p, g)[i].t = "sub" /\ InSub(p, Steps(p, g)[i].k, f)
KeptAt(p, f, c) ==
  {<<Steps(p, f)[i].t, Steps(p, f)[i].k>> : i \in
     {i \in DOMAIN Steps(p, f) : LET s == Steps(p, f)[i] IN s.t \in {"nat", "evm"} /\ s.fail = "no" /\ ~c[s.id]}}
ChainKept(p, f, c) == \A g \in Frames(p) : InSub(p, g, f) => ~Fails(p, g, c)
KeptSet(p, c) == UNION {IF ChainKept(p, f, c) THEN KeptAt(p, f, c) ELSE {} : f \in Frames(p)}
HasPanic(p) == \E f \in Frames(p) : \E i \in DOMAIN Steps(p, f) : Steps(p, f)[i].fail = "panic"

IsRun(o)   == o.name \in {"RunProgram", "RunProgramGas"}
Executed(o) == IsRun(o) /\ o.res = "ok"
Refused(o)  == IsRun(o) /\ o.res = "rej"

\* persisted Cosmos-side effects = exactly the native calls whose whole frame chain was kept; the EVM-side
\* effects of the same frames are committed together with them
A_C09_AllOrNothing ==
  Executed(op') =>
    LET kept == KeptSet(op'.p, op'.c) IN
      /\ \A k \in 1..MaxNat : nat'[k] = nat[k] + (IF <<"nat", k>> \in kept THEN 1 ELSE 0)
      /\ \A j \in 1..MaxEvm : evm'[j] = evm[j] + (IF <<"evm", j>> \in kept THEN 1 ELSE 0)
C09_AllOrNothing == [][A_C09_AllOrNothing]_vars

\* a failed transaction persists nothing (judged by the REAL receipt status)
A_C09_NothingWhenFailed ==
  (Executed(op') /\ status' = "failed") => (nat' = nat /\ evm' = evm)
C09_NothingWhenFailed == [][A_C09_NothingWhenFailed]_vars

\* the receipt status is the fate of the root frame
A_C09_Status ==
  Executed(op') => status' = (IF Fails(op'.p, 1, op'.c) THEN "failed" ELSE "success")
C09_Status == [][A_C09_Status]_vars

\* a transaction that cannot pay its intrinsic gas changes nothing
A_C09_InvalidNoEffect ==
  op'.name = "Intrinsic" => (op'.res = "rej" /\ nat' = nat /\ evm' = evm /\ ntx' = ntx)
C09_InvalidNoEffect == [][A_C09_InvalidNoEffect]_vars

\* a transaction whose execution is aborted (a native action panicked) changes nothing at all, and no other
\* transaction is ever refused once it can pay its intrinsic gas
A_C09_AbortNoEffect ==
  Refused(op') => (HasPanic(op'.p) /\ nat' = nat /\ evm' = evm /\ ntx' = ntx /\ status' = status /\ leak' = leak /\ split' = split)
C09_AbortNoEffect == [][A_C09_AbortNoEffect]_vars

\* dropped frames leave no trace in ANY store (complete multistore dump and receipt logs equal those of the
\* transaction reduced to its kept frames; failed transaction: dump unchanged modulo the sender's nonce)
C09_NoLeak == leak = FALSE
\* Cosmos-side records and EVM-side token balances/supply agree (a kept bridge effect debited its caller)
C09_NoSplit == split = FALSE

---------------------------------------------------------------------------
View == svars
Bounded == TRUE
EdgeDump == /\ IF op.name = "Init" \/ op'.res = "ok"
               THEN PrintT(<<"EDGE", ToJson([from |-> Abs, op |-> op', to |-> Abs'])>>)
               ELSE TRUE
            /\ Bounded
=============================================================================
