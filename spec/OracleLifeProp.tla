--------------------------- MODULE OracleLifeProp ---------------------------
(***************************************************************************)
(* Evaluates the C13 formulas of OracleLife.tla on behaviours RECORDED     *)
(* FROM THE REAL KEEPER: each step installs the projected real state and   *)
(* the operation that produced it (line l of the trace file).  Lines with  *)
(* op.name = "Reset" start a new recorded behaviour; action properties are *)
(* not evaluated across a Reset.                                           *)
(***************************************************************************)
EXTENDS OracleLifeMC
CONSTANT TraceFile
VARIABLE l
Trace == ndJsonDeserialize(TraceFile)

Install(st) ==
  /\ reg' = st.reg /\ online' = st.online /\ approved' = st.approved /\ bridger' = st.bridger
  /\ ext' = st.ext /\ val' = st.val /\ rec' = st.rec /\ slashTimes' = st.slashTimes
  /\ bidx' = st.bidx /\ eidx' = st.eidx
  /\ deleg' = st.deleg /\ stray' = st.stray /\ unb' = st.unb /\ dbal' = st.dbal /\ bal' = st.bal
  /\ redelTo' = st.redelTo /\ pend' = st.pend /\ drew' = st.drew /\ orew' = st.orew
  /\ burned' = st.burned /\ alien' = st.alien /\ odd' = st.odd
  /\ obj' = st.obj /\ late' = st.late
  /\ UNCHANGED cvars

PInit == Init /\ l = 1
PNext == /\ l <= Len(Trace) /\ l' = l + 1
         /\ Install(Trace[l].st) /\ op' = Trace[l].op
PSpec == PInit /\ [][PNext]_<<vars, l>>

R(A) == op'.name = "Reset" \/ A
P_C13_OnlyApprovedBond     == [][R(A_C13_OnlyApprovedBond)]_<<vars, l>>
P_C13_PenaltyOnce          == [][R(A_C13_PenaltyOnce)]_<<vars, l>>
P_C13_RecoverableOnce      == [][R(A_C13_RecoverableOnce)]_<<vars, l>>
P_C13_RemovalNotBlocked    == [][R(A_C13_RemovalNotBlocked)]_<<vars, l>>
P_C13_ConfirmerNeverSlashed == [][R(A_C13_ConfirmerNeverSlashed)]_<<vars, l>>
P_C13_OfflineOnlyForCause  == [][R(A_C13_OfflineOnlyForCause)]_<<vars, l>>
P_C13_JoinedOnActivation   == [][R(A_C13_JoinedOnActivation)]_<<vars, l>>

\* all lines consumed
Consumed == TLCGet("stats").diameter - 1 = Len(Trace)
=============================================================================
