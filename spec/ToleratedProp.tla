---------------------------- MODULE ToleratedProp ----------------------------
(* Evaluates Tolerated.tla's property formulas on behaviours recorded from the real application
   (see AttestProp.tla for the scheme). *)
EXTENDS ToleratedMC
CONSTANT TraceFile
VARIABLE l
Trace == ndJsonDeserialize(TraceFile)

Install(st) ==
  /\ nobs' = st.nobs /\ parked' = st.parked /\ nref' = st.nref /\ refs' = st.refs /\ held' = st.held /\ wslot' = st.wslot
  /\ rslot' = st.rslot /\ ntok' = st.ntok /\ np' = st.np /\ pstat' = st.pstat /\ gmark' = st.gmark /\ nin' = st.nin
  /\ ack' = st.ack /\ vcred' = st.vcred /\ icall' = st.icall /\ residue' = st.residue
  /\ UNCHANGED steps

PInit == Init /\ l = 1
PNext == /\ l <= Len(Trace) /\ l' = l + 1
         /\ Install(Trace[l].st) /\ op' = Trace[l].op
PSpec == PInit /\ [][PNext]_<<vars, l>>

R(A) == op'.name = "Reset" \/ A
P_C18_AttMarkedObserved == [][R(A_C18_AttMarkedObserved)]_<<vars, l>>
P_C18_CallRefundExact   == [][R(A_C18_CallRefundExact)]_<<vars, l>>
P_C18_GovMarkedFailed   == [][R(A_C18_GovMarkedFailed)]_<<vars, l>>
P_C18_IbcErrorAck       == [][R(A_C18_IbcErrorAck)]_<<vars, l>>

Consumed == TLCGet("stats").diameter - 1 = Len(Trace)
=============================================================================
