---------------------------- MODULE EndBlockProp ----------------------------
(***************************************************************************)
(* Evaluates the C07 formulas of EndBlock.tla on behaviours RECORDED FROM  *)
(* THE REAL APPLICATION (graph replay on branches of the multistore and    *)
(* linear replay through real FinalizeBlock+Commit).  Each step installs   *)
(* the projected real state and the operation that produced it (with the   *)
(* REAL result class); lines with op.name = "Reset" start a new behaviour. *)
(***************************************************************************)
EXTENDS EndBlockMC
CONSTANT TraceFile
VARIABLE l
Trace == ndJsonDeserialize(TraceFile)

Install(st) ==
  /\ reg' = st.reg /\ online' = st.online /\ approved' = st.approved /\ stake' = st.stake /\ power' = st.power
  /\ totalPower' = st.totalPower /\ threshold' = st.threshold
  /\ sets' = st.sets /\ latest' = st.latest /\ slashedSet' = st.slashedSet /\ lastObsSet' = st.lastObsSet
  /\ batches' = st.batches /\ slashedBatch' = st.slashedBatch /\ calls' = st.calls /\ slashedCall' = st.slashedCall
  /\ props' = st.props
  /\ UNCHANGED adds

PInit == Init /\ l = 1
PNext == /\ l <= Len(Trace) /\ l' = l + 1
         /\ Install(Trace[l].st) /\ op' = Trace[l].op
PSpec == PInit /\ [][PNext]_<<vars, l>>

R(A) == op'.name = "Reset" \/ A
P_C07_TickNeverFails      == [][R(A_C07_TickNeverFails)]_<<vars, l>>
P_C07_OfflineExactly      == [][R(A_C07_OfflineExactly)]_<<vars, l>>
P_C07_OnlineChangedOnlyBy == [][R(A_C07_OnlineChangedOnlyBy)]_<<vars, l>>
P_C07_PowerChangedOnlyBy  == [][R(A_C07_PowerChangedOnlyBy)]_<<vars, l>>
P_C07_Cursors             == [][R(A_C07_Cursors)]_<<vars, l>>
P_C07_PowerRefreshed      == [][R(A_C07_PowerRefreshed)]_<<vars, l>>
P_C07_SetRequest          == [][R(A_C07_SetRequest)]_<<vars, l>>
P_C07_SetsOnlyByTick      == [][R(A_C07_SetsOnlyByTick)]_<<vars, l>>
P_C07_Pruning             == [][R(A_C07_Pruning)]_<<vars, l>>
P_C07_GovResolved         == [][R(A_C07_GovResolved)]_<<vars, l>>

\* all lines consumed
Consumed == TLCGet("stats").diameter - 1 = Len(Trace)
=============================================================================
