------------------------------- MODULE Erc20 -------------------------------
(***************************************************************************)
(* Coin <-> ERC-20 conversion of ONE token pair (x/erc20 msg_server.go,    *)
(* proposals.go, token_pairs.go; the conversions implied by the crosschain *)
(* precompile's crossChain / bridgeCall: x/crosschain/precompile/keeper.go,*)
(* x/crosschain/keeper/many_to_one.go).                                    *)
(*                                                                         *)
(* Kind = "fx"       the native coin behind the wrapper contract (WFX):    *)
(*                   escrow sits at the wrapper contract's own address     *)
(*        "module"   module-owned ERC-20 of a coin registered by governance*)
(*                   (escrow at the erc20 module account)                  *)
(*        "external" externally-owned ERC-20 registered by governance: the *)
(*                   module escrows TOKENS and mints/burns the coin        *)
(* each with 0-1 alias ("bridge") denomination "a" of the base coin "b".   *)
(*                                                                         *)
(* The externally-owned token is somebody else's contract.  Two traits of  *)
(* an ordinary third-party ERC-20 are constants of the model:              *)
(*   Soft    it signals a transfer it cannot make (balance, allowance,     *)
(*           zero receiver) by RETURNING FALSE and changing nothing, as    *)
(*           EIP-20 allows, instead of reverting;                          *)
(*   Mortal  its owner can destroy it (Kill: SELFDESTRUCT).  `dead` = the  *)
(*           pair's contract address has no code any more.  The first      *)
(*           conversion message that passes the module's gate then DROPS   *)
(*           the pair (record, three indexes) and moves nothing.           *)
(*                                                                         *)
(* RunProgram(p): p is a straight-line EVM program executed by a contract  *)
(* ("exe") that HOLDS tokens, in ONE transaction.  Its meaning here is     *)
(* what an EVM transaction means: every step acts on ONE shared state and  *)
(* a failing step undoes the whole transaction.                            *)
(*                                                                         *)
(* Every action is TOTAL (decides op.res and leaves the state unchanged    *)
(* when rejected).  Property: C08.                                         *)
(***************************************************************************)
EXTENDS Integers, Sequences, FiniteSets, TLC, Json

CONSTANTS Kind,      \* "fx" | "module" | "external"
          HasAlias,  \* BOOLEAN: an alias / bridge denomination "a" exists in this world
          InitU1,    \* units held initially by u1, u2: base coin (fx, module) or tokens (external)
          InitU2,
          Amt,       \* amounts used by messages and direct token calls
          RecvSet,   \* receivers named by ConvertCoin / ConvertERC20 (subset of Holder)
          TRecvSet,  \* recipients of direct token transfers (subset of Holder)
          StepSet,   \* alphabet of program steps: records [k, n]
          ProgLen,   \* maximal number of steps of a program (1..3)
          ProgSet,   \* "all" | "main" (without the known scenario) | "known" (only it) | "none"
          Soft,      \* BOOLEAN (Kind = "external"): the token returns false instead of reverting
          Mortal,    \* BOOLEAN (Kind = "external"): the token's owner can destroy the contract
          MaxConv, MaxTok, MaxGov, MaxProg   \* bounds on accepted operations per kind

VARIABLES coin,      \* [Holder -> [Denom -> Nat]] bank balances
          csupply,   \* [Denom -> Nat] bank supply of the denomination (FX: relative to the tracked holders)
          tok,       \* [Holder -> Nat] balanceOf
          supply,    \* totalSupply
          allow,     \* [Owner -> [Spender -> Nat]] allowance
          reg,       \* the pair record exists
          enabled,   \* pair.Enabled
          byDenom,   \* [Denom -> "none"|"main"]  index denom -> pair id
          byToken,   \* "none"|"main"             index token address -> pair id
          aliasIdx,  \* [Denom -> "none"|denom]   erc20 index alias -> denom
          mdAlias,   \* [Denom -> BOOLEAN]        listed as alias of "b" in the bank metadata (what the bridge keeper reads)
          pool,      \* value sitting in the eth module's outgoing transfer pool
          calls,     \* value sitting in the eth module's outgoing bridge calls
          gift,      \* environment ledger: escrowed asset handed to the pair's escrow account gratuitously (a direct token
                     \* transfer to the module of an externally-owned pair; a conversion whose coin receiver is the wrapper)
          dead,      \* the token contract was destroyed by its owner (no code at the pair's contract address)
          lost,      \* environment ledger: token claims (balances outside the escrow) that existed when the owner destroyed the contract
          nconv, ntok, ngov, nprog,
          op         \* [name, by, u, r, n, k, p, res]

svars == <<coin, csupply, tok, supply, allow, reg, enabled, byDenom, byToken, aliasIdx, mdAlias, pool, calls, gift, dead, lost,
           nconv, ntok, ngov, nprog>>
vars  == <<svars, op>>

None    == "none"
User    == {"u1", "u2"}
UH      == {"u1", "u2", "exe"}                       \* user-side holders (exe = the executor contract)
Holder  == {"u1", "u2", "exe", "mod", "wrap", "eth", "pre", "zero"} \* + erc20 module account, token contract, eth bridge
                                                                     \* module account, crosschain precompile address, zero address
Blocked == {"mod", "eth"}                            \* module accounts: the bank refuses them as coin receivers, and so does the conversion
Denom   == IF HasAlias THEN {"b", "a"} ELSE {"b"}
Owner   == {"u1", "exe"}
Spender == {"u2", "exe", "pre"}                      \* pre = the crosschain precompile address

Abs == [coin |-> coin, csupply |-> csupply, tok |-> tok, supply |-> supply, allow |-> allow, reg |-> reg,
        enabled |-> enabled, byDenom |-> byDenom, byToken |-> byToken, aliasIdx |-> aliasIdx, mdAlias |-> mdAlias,
        pool |-> pool, calls |-> calls, gift |-> gift, dead |-> dead, lost |-> lost]

RECURSIVE SumSet(_, _)
SumSet(S, f) == IF S = {} THEN 0 ELSE LET x == CHOOSE y \in S : TRUE IN f[x] + SumSet(S \ {x}, f)

SupplyOf(c) == [d \in Denom |-> SumSet(Holder, [h \in Holder |-> c[h][d]])]

Op(name, by, u, r, n, k, p, res) ==
  [name |-> name, by |-> by, u |-> u, r |-> r, n |-> n, k |-> k, p |-> p, res |-> res]

TokenExists == Kind # "module" \/ reg      \* the module-owned contract is deployed by the registration
Live        == TokenExists /\ ~dead        \* there is code at the token's address
SoftFail    == Kind = "external" /\ Soft   \* a transfer the token cannot make returns false: the CALL itself succeeds

Init ==
  /\ coin = [h \in Holder |-> [d \in Denom |->
               IF Kind # "external" /\ d = "b" /\ h = "u1" THEN InitU1
               ELSE IF Kind # "external" /\ d = "b" /\ h = "u2" THEN InitU2
               \* module-owned pair of a bridged coin: the bridge coins backing the deposits are locked in the bridge module
               ELSE IF Kind = "module" /\ d = "a" /\ h = "eth" THEN InitU1 + InitU2
               ELSE 0]]
  /\ csupply = SupplyOf(coin)
  /\ tok = [h \in Holder |-> IF Kind = "external" /\ h = "u1" THEN InitU1
                             ELSE IF Kind = "external" /\ h = "u2" THEN InitU2 ELSE 0]
  /\ supply = IF Kind = "external" THEN InitU1 + InitU2 ELSE 0
  /\ allow = [o \in Owner |-> [s \in Spender |-> 0]]
  /\ reg = (Kind = "fx") /\ enabled = (Kind = "fx")      \* the native coin's pair is registered at genesis
  /\ byDenom = [d \in Denom |-> IF Kind = "fx" /\ d = "b" THEN "main" ELSE None]
  /\ byToken = IF Kind = "fx" THEN "main" ELSE None
  /\ aliasIdx = [d \in Denom |-> None]
  /\ mdAlias = [d \in Denom |-> FALSE]
  /\ pool = 0 /\ calls = 0 /\ gift = 0 /\ dead = FALSE /\ lost = 0
  /\ nconv = 0 /\ ntok = 0 /\ ngov = 0 /\ nprog = 0
  /\ op = Op("Init", None, None, None, 0, None, <<>>, "ok")

Rej(o) == /\ op' = [o EXCEPT !.res = "rej"] /\ UNCHANGED svars

---------------------------------------------------------------------------
(* Governance: MsgRegisterCoin (module) / MsgRegisterERC20 (external),     *)
(* with the alias in the metadata when the world has one.                  *)
Register(by) ==
  LET this == Op("Register", by, None, None, 0, None, <<>>, "ok")
      okk  == by = "gov" /\ ~reg /\ byDenom["b"] = None /\ byToken = None
              /\ \A d \in Denom : aliasIdx[d] = None
              /\ ~dead                     \* the registration of an externally-owned token queries the contract
  IN IF ~okk THEN Rej(this) ELSE
     /\ reg' = TRUE /\ enabled' = TRUE
     /\ byDenom' = [byDenom EXCEPT !["b"] = "main"] /\ byToken' = "main"
     /\ aliasIdx' = [d \in Denom |-> IF d = "a" THEN "b" ELSE None]
     /\ mdAlias' = [d \in Denom |-> d = "a"]
     /\ ngov' = ngov + 1 /\ op' = this
     /\ UNCHANGED <<coin, csupply, tok, supply, allow, pool, calls, gift, dead, lost, nconv, ntok, nprog>>

(* MsgToggleTokenConversion, pair addressed by denom or by token address *)
Toggle(by, key) ==
  LET this == Op("Toggle", by, None, None, 0, key, <<>>, "ok")
      okk  == by = "gov" /\ reg /\ (IF key = "denom" THEN byDenom["b"] = "main" ELSE byToken = "main")
  IN IF ~okk THEN Rej(this) ELSE
     /\ enabled' = ~enabled /\ ngov' = ngov + 1 /\ op' = this
     /\ UNCHANGED <<coin, csupply, tok, supply, allow, reg, byDenom, byToken, aliasIdx, mdAlias, pool, calls, gift, dead, lost, nconv, ntok, nprog>>

(* MsgUpdateDenomAlias(denom = base, alias = al): adds the alias when unknown, removes it when it is *)
(* the base's alias; al = "b" offers the base itself as alias (always refused).                      *)
UpdateAlias(by, al) ==
  LET this == Op("UpdateAlias", by, None, None, 0, al, <<>>, "ok")
      okk  == by = "gov" /\ reg /\ byDenom["b"] = "main" /\ byDenom[al] = None /\ aliasIdx[al] \in {None, "b"}
  IN IF ~okk THEN Rej(this) ELSE
     /\ aliasIdx' = [aliasIdx EXCEPT ![al] = IF @ = None THEN "b" ELSE None]
     /\ mdAlias' = [mdAlias EXCEPT ![al] = aliasIdx[al] = None]
     /\ ngov' = ngov + 1 /\ op' = this
     /\ UNCHANGED <<coin, csupply, tok, supply, allow, reg, enabled, byDenom, byToken, pool, calls, gift, dead, lost, nconv, ntok, nprog>>

---------------------------------------------------------------------------
(* A conversion message for a pair whose contract has been destroyed, once past the module's gate (pair found and  *)
(* enabled, receiver not a module account): the pair is dropped - record, denom index, contract index and the      *)
(* alias index entries of the aliases listed in the coin's metadata - the message is ACCEPTED and nothing moves.   *)
(* (The bank metadata of the coin stays.)                                                                          *)
Dropped(this) ==
  /\ reg' = FALSE /\ enabled' = FALSE
  /\ byDenom' = [byDenom EXCEPT !["b"] = None] /\ byToken' = None
  /\ aliasIdx' = [d \in Denom |-> IF mdAlias[d] THEN None ELSE aliasIdx[d]]
  /\ nconv' = nconv + 1 /\ op' = this
  /\ UNCHANGED <<coin, csupply, tok, supply, allow, mdAlias, pool, calls, gift, dead, lost, ntok, ngov, nprog>>

(* MsgConvertCoin: n base coins of u become n tokens of r *)
ConvertCoin(u, n, r) ==
  LET this == Op("ConvertCoin", None, u, r, n, None, <<>>, "ok")
      gate == reg /\ byDenom["b"] = "main" /\ enabled
              /\ r \notin Blocked          \* a module account is refused as receiver
      okk  == /\ gate /\ coin[u]["b"] >= n
              /\ r # "zero"                \* the token refuses the zero address
              /\ (Kind = "external" => tok["mod"] >= n)
  IN IF gate /\ dead THEN Dropped(this) ELSE
     IF ~okk THEN Rej(this) ELSE
     /\ CASE Kind = "fx" ->          \* escrow, mint, escrow moved to the wrapper contract
               /\ coin' = [coin EXCEPT ![u]["b"] = @ - n, !["wrap"]["b"] = @ + n]
               /\ tok' = [tok EXCEPT ![r] = @ + n] /\ supply' = supply + n
          [] Kind = "module" ->      \* escrow at the module, mint
               /\ coin' = [coin EXCEPT ![u]["b"] = @ - n, !["mod"]["b"] = @ + n]
               /\ tok' = [tok EXCEPT ![r] = @ + n] /\ supply' = supply + n
          [] OTHER ->                \* escrow, release escrowed tokens, burn the coins
               /\ coin' = [coin EXCEPT ![u]["b"] = @ - n]
               /\ tok' = [tok EXCEPT !["mod"] = @ - n, ![r] = @ + n] /\ supply' = supply
     /\ csupply' = SupplyOf(coin')
     /\ nconv' = nconv + 1 /\ op' = this
     /\ UNCHANGED <<allow, reg, enabled, byDenom, byToken, aliasIdx, mdAlias, pool, calls, gift, dead, lost, ntok, ngov, nprog>>

(* MsgConvertERC20: n tokens of u become n base coins of r *)
ConvertERC20(u, n, r) ==
  LET this == Op("ConvertERC20", None, u, r, n, None, <<>>, "ok")
      gate == reg /\ byToken = "main" /\ enabled /\ r \notin Blocked
      okk  == /\ gate /\ tok[u] >= n     \* the token refuses (by reverting or by returning false) to move more than u owns
              /\ (Kind = "fx" => coin["wrap"]["b"] >= n) /\ (Kind = "module" => coin["mod"]["b"] >= n)
  IN IF gate /\ dead THEN Dropped(this) ELSE
     IF ~okk THEN Rej(this) ELSE
     \* the wrapper named as coin receiver: the released escrow returns to the escrow account without tokens: a gift
     /\ gift' = gift + (IF Kind = "fx" /\ r = "wrap" THEN n ELSE 0)
     /\ CASE Kind = "fx" ->
               /\ tok' = [tok EXCEPT ![u] = @ - n] /\ supply' = supply - n
               /\ coin' = [coin EXCEPT !["wrap"]["b"] = @ - n, ![r]["b"] = @ + n]
          [] Kind = "module" ->
               /\ tok' = [tok EXCEPT ![u] = @ - n] /\ supply' = supply - n
               /\ coin' = [coin EXCEPT !["mod"]["b"] = @ - n, ![r]["b"] = @ + n]
          [] OTHER ->                \* escrow the tokens, mint the coin
               /\ tok' = [tok EXCEPT ![u] = @ - n, !["mod"] = @ + n] /\ supply' = supply
               /\ coin' = [coin EXCEPT ![r]["b"] = @ + n]
     /\ csupply' = SupplyOf(coin')
     /\ nconv' = nconv + 1 /\ op' = this
     /\ UNCHANGED <<allow, reg, enabled, byDenom, byToken, aliasIdx, mdAlias, pool, calls, dead, lost, ntok, ngov, nprog>>

(* MsgConvertDenom (sender = receiver): dir = "toAlias": n base -> alias (target "eth");            *)
(* "toBase": n alias -> base (target "").  fx / external: base locked at the module, alias minted;  *)
(* module-owned: base burned / minted, alias released from / locked at the module.                  *)
ConvertDenom(u, n, dir) ==
  LET this == Op("ConvertDenom", None, u, None, n, dir, <<>>, "ok")
      src  == IF dir = "toAlias" THEN "b" ELSE "a"
      dst  == IF dir = "toAlias" THEN "a" ELSE "b"
      lockBase == Kind # "module"
      okk  == /\ HasAlias /\ reg /\ byDenom["b"] = "main" /\ mdAlias["a"]
              /\ (dir = "toBase" => byDenom["a"] = None /\ aliasIdx["a"] = "b")
              /\ coin[u][src] >= n
              /\ (dir = "toBase" /\ lockBase => coin["mod"]["b"] >= n)
              /\ (dir = "toAlias" /\ ~lockBase => coin["mod"]["a"] >= n)
  IN IF ~okk THEN Rej(this) ELSE
     /\ coin' = IF lockBase
                THEN (IF dir = "toAlias" THEN [coin EXCEPT ![u]["b"] = @ - n, !["mod"]["b"] = @ + n, ![u]["a"] = @ + n]
                                         ELSE [coin EXCEPT ![u]["a"] = @ - n, !["mod"]["b"] = @ - n, ![u]["b"] = @ + n])
                ELSE (IF dir = "toAlias" THEN [coin EXCEPT ![u]["b"] = @ - n, !["mod"]["a"] = @ - n, ![u]["a"] = @ + n]
                                         ELSE [coin EXCEPT ![u]["a"] = @ - n, !["mod"]["a"] = @ + n, ![u]["b"] = @ + n])
     /\ csupply' = SupplyOf(coin')
     /\ nconv' = nconv + 1 /\ op' = this
     /\ UNCHANGED <<tok, supply, allow, reg, enabled, byDenom, byToken, aliasIdx, mdAlias, pool, calls, gift, dead, lost, ntok, ngov, nprog>>

(* wrapper contract only: deposit() with value n / withdraw(n) by an account *)
Deposit(u, n) ==
  LET this == Op("Deposit", None, u, None, n, None, <<>>, "ok")
      okk  == Kind = "fx" /\ coin[u]["b"] >= n
  IN IF ~okk THEN Rej(this) ELSE
     /\ coin' = [coin EXCEPT ![u]["b"] = @ - n, !["wrap"]["b"] = @ + n]
     /\ tok' = [tok EXCEPT ![u] = @ + n] /\ supply' = supply + n
     /\ csupply' = SupplyOf(coin')
     /\ nconv' = nconv + 1 /\ op' = this
     /\ UNCHANGED <<allow, reg, enabled, byDenom, byToken, aliasIdx, mdAlias, pool, calls, gift, dead, lost, ntok, ngov, nprog>>

Withdraw(u, n) ==
  LET this == Op("Withdraw", None, u, None, n, None, <<>>, "ok")
      okk  == Kind = "fx" /\ tok[u] >= n /\ coin["wrap"]["b"] >= n
  IN IF ~okk THEN Rej(this) ELSE
     /\ coin' = [coin EXCEPT !["wrap"]["b"] = @ - n, ![u]["b"] = @ + n]
     /\ tok' = [tok EXCEPT ![u] = @ - n] /\ supply' = supply - n
     /\ csupply' = SupplyOf(coin')
     /\ nconv' = nconv + 1 /\ op' = this
     /\ UNCHANGED <<allow, reg, enabled, byDenom, byToken, aliasIdx, mdAlias, pool, calls, gift, dead, lost, ntok, ngov, nprog>>

---------------------------------------------------------------------------
(* direct token calls by accounts (real EVM transactions); "rej" = the transaction reverted or the token answered *)
(* anything but true (a Soft token answers false; an address without code answers nothing)                       *)
Transfer(u, r, n) ==
  LET this == Op("Transfer", None, u, r, n, None, <<>>, "ok")
      okk  == Live /\ tok[u] >= n /\ r # "zero"
  IN IF ~okk THEN Rej(this) ELSE
     /\ tok' = [tok EXCEPT ![u] = @ - n, ![r] = @ + n]
     \* tokens sent straight to the escrow account of an externally-owned pair back no coin: a gift
     /\ gift' = gift + (IF Kind = "external" /\ r = "mod" THEN n ELSE 0)
     /\ ntok' = ntok + 1 /\ op' = this
     /\ UNCHANGED <<coin, csupply, supply, allow, reg, enabled, byDenom, byToken, aliasIdx, mdAlias, pool, calls, dead, lost, nconv, ngov, nprog>>

Approve(o, s, n) ==
  LET this == Op("Approve", None, o, s, n, None, <<>>, "ok")
  IN IF ~Live THEN Rej(this) ELSE
     /\ allow' = [allow EXCEPT ![o][s] = n]
     /\ ntok' = ntok + 1 /\ op' = this
     /\ UNCHANGED <<coin, csupply, tok, supply, reg, enabled, byDenom, byToken, aliasIdx, mdAlias, pool, calls, gift, dead, lost, nconv, ngov, nprog>>

(* transferFrom(u1, u2, n) sent by u2 *)
TransferFrom(n) ==
  LET this == Op("TransferFrom", None, "u2", "u1", n, None, <<>>, "ok")
      okk  == Live /\ allow["u1"]["u2"] >= n /\ tok["u1"] >= n
  IN IF ~okk THEN Rej(this) ELSE
     /\ allow' = [allow EXCEPT !["u1"]["u2"] = @ - n]
     /\ tok' = [tok EXCEPT !["u1"] = @ - n, !["u2"] = @ + n]
     /\ ntok' = ntok + 1 /\ op' = this
     /\ UNCHANGED <<coin, csupply, supply, reg, enabled, byDenom, byToken, aliasIdx, mdAlias, pool, calls, gift, dead, lost, nconv, ngov, nprog>>

(* kill() sent by the token's owner ("owner") or by somebody else: SELFDESTRUCT of an externally-owned token. *)
(* Every balance, the total supply and every allowance are gone with the contract's storage.                 *)
Kill(by) ==
  LET this == Op("Kill", by, None, None, 0, None, <<>>, "ok")
      okk  == Kind = "external" /\ Mortal /\ ~dead /\ by = "owner"
  IN IF ~okk THEN Rej(this) ELSE
     /\ dead' = TRUE /\ lost' = lost + SumSet(Holder \ {"mod"}, tok)
     /\ tok' = [h \in Holder |-> 0] /\ supply' = 0 /\ allow' = [o \in Owner |-> [s \in Spender |-> 0]]
     /\ op' = this
     /\ UNCHANGED <<coin, csupply, reg, enabled, byDenom, byToken, aliasIdx, mdAlias, pool, calls, gift, nconv, ntok, ngov, nprog>>

---------------------------------------------------------------------------
(* PROGRAMS.  A step is [k, n]:                                            *)
(*  tr  token.transfer(u2, n)             ap  token.approve(precompile, n) *)
(*  tf  token.transferFrom(u1, exe, n)                                     *)
(*  cc  precompile.crossChain(token, dest, n, fee 0, "eth")                *)
(*  bc  precompile.bridgeCall("eth", refund exe, [token], [n], ...)        *)
(*  rv  REVERT (last step only)                                            *)
(* all executed by the contract exe in one transaction.  exe propagates   *)
(* the failure of a CALL, it does not look at what the callee returns: a   *)
(* Soft token's refused transfer, and any call to a destroyed token, is a  *)
(* successful CALL that changes nothing.                                   *)
Rv == [k |-> "rv", n |-> 0]
Bodies == (IF ProgLen >= 1 THEN {<<a>> : a \in StepSet} ELSE {})
          \cup (IF ProgLen >= 2 THEN {<<a, b>> : a, b \in StepSet} ELSE {})
          \cup (IF ProgLen >= 3 THEN {<<a, b, c>> : a, b, c \in StepSet} ELSE {})
HasPre(p) == \E i \in 1..Len(p) : p[i].k \in {"cc", "bc"}
AllPrograms == Bodies \cup {Append(p, Rv) : p \in {q \in Bodies : HasPre(q)}}

(* The scenario of the known finding OuterWriteThenNestedConvert: a write to the executor's own token   *)
(* balance through the running EVM (transfer, transferFrom, or crossChain whose token legs run in the   *)
(* calling EVM) followed, in the same transaction, by a bridgeCall of that token, not undone by REVERT. *)
OuterWrites == {"tr", "tf", "cc"}
InScenario(p) == /\ p[Len(p)].k # "rv"
                 /\ \E i, j \in 1..Len(p) : i < j /\ p[i].k \in OuterWrites /\ p[j].k = "bc"
Programs == CASE ProgSet = "all"   -> AllPrograms
              [] ProgSet = "main"  -> {p \in AllPrograms : ~InScenario(p)}
              [] ProgSet = "known" -> {p \in AllPrograms : InScenario(p)}
              [] OTHER             -> {}

S0 == [ok |-> TRUE, tok |-> tok, supply |-> supply, allow |-> allow, coin |-> coin, pool |-> pool, calls |-> calls]
Fail(s) == [s EXCEPT !.ok = FALSE]

(* n base coins of exe can leave through the eth bridge module *)
BridgeOK(s, n) ==
  CASE Kind = "fx"     -> TRUE                                                  \* FX is its own bridge denomination
    [] Kind = "module" -> HasAlias /\ mdAlias["a"] /\ s.coin["eth"]["a"] >= n   \* base burned, locked bridge coin burned
    [] OTHER           -> HasAlias /\ mdAlias["a"]                              \* base burned, bridge coin minted and locked
BridgeOut(c, n) ==
  CASE Kind = "fx"     -> [c EXCEPT !["eth"]["b"] = @ + n]
    [] Kind = "module" -> [c EXCEPT !["eth"]["a"] = @ - n]
    [] OTHER           -> [c EXCEPT !["eth"]["a"] = @ + n]
CanRedeem(s, n) == /\ reg /\ byToken = "main" /\ s.tok["exe"] >= n /\ BridgeOK(s, n)
                   /\ (Kind = "fx" => s.coin["wrap"]["b"] >= n) /\ (Kind = "module" => s.coin["mod"]["b"] >= n)
(* n tokens of exe are converted to the base coin, which leaves through the bridge *)
Redeem(s, n) ==
  LET t1 == [s.tok EXCEPT !["exe"] = @ - n]
  IN CASE Kind = "fx"     -> [s EXCEPT !.tok = t1, !.supply = @ - n, !.coin = BridgeOut([s.coin EXCEPT !["wrap"]["b"] = @ - n], n)]
       [] Kind = "module" -> [s EXCEPT !.tok = t1, !.supply = @ - n, !.coin = BridgeOut([s.coin EXCEPT !["mod"]["b"] = @ - n], n)]
       [] OTHER           -> [s EXCEPT !.tok = [t1 EXCEPT !["mod"] = @ + n], !.coin = BridgeOut(s.coin, n)]

Exec(s, st) ==
  LET n == st.n IN
  CASE st.k \in {"tr", "ap", "tf"} /\ dead -> s          \* no code at the address: the CALL succeeds and does nothing
    [] st.k = "tr" -> IF s.tok["exe"] >= n THEN [s EXCEPT !.tok = [@ EXCEPT !["exe"] = @ - n, !["u2"] = @ + n]]
                      ELSE IF SoftFail THEN s ELSE Fail(s)
    [] st.k = "ap" -> [s EXCEPT !.allow = [@ EXCEPT !["exe"]["pre"] = n]]
    [] st.k = "tf" -> IF s.allow["u1"]["exe"] >= n /\ s.tok["u1"] >= n
                      THEN [s EXCEPT !.allow = [@ EXCEPT !["u1"]["exe"] = @ - n], !.tok = [@ EXCEPT !["u1"] = @ - n, !["exe"] = @ + n]]
                      ELSE IF SoftFail THEN s ELSE Fail(s)
    \* crossChain: transferFrom(exe -> module) by the precompile through the running EVM (needs the allowance),
    \* conversion, outgoing pool entry.  (The pair's enabled flag is not consulted on this path.)
    [] st.k = "cc" -> IF ~dead /\ s.allow["exe"]["pre"] >= n /\ CanRedeem(s, n)
                      THEN LET r == Redeem(s, n) IN [r EXCEPT !.allow = [@ EXCEPT !["exe"]["pre"] = @ - n], !.pool = @ + n]
                      ELSE Fail(s)
    \* bridgeCall: MsgConvertERC20(exe -> exe) (needs the pair enabled, no allowance), outgoing bridge call
    [] st.k = "bc" -> IF ~dead /\ enabled /\ CanRedeem(s, n)
                      THEN LET r == Redeem(s, n) IN [r EXCEPT !.calls = @ + n]
                      ELSE Fail(s)
    [] OTHER -> Fail(s)     \* rv

RECURSIVE Run(_, _, _)
Run(s, p, i) == IF i > Len(p) \/ ~s.ok THEN s ELSE Run(Exec(s, p[i]), p, i + 1)

RunProgram(p) ==
  LET this == Op("RunProgram", None, None, None, 0, None, p, "ok")
      r    == Run(S0, p, 1)
  IN IF ~(TokenExists /\ r.ok) THEN Rej(this) ELSE
     /\ tok' = r.tok /\ supply' = r.supply /\ allow' = r.allow /\ coin' = r.coin /\ pool' = r.pool /\ calls' = r.calls
     /\ csupply' = SupplyOf(coin')
     /\ nprog' = nprog + 1 /\ op' = this
     /\ UNCHANGED <<reg, enabled, byDenom, byToken, aliasIdx, mdAlias, gift, dead, lost, nconv, ntok, ngov>>

Probe == op' = Op("Probe", None, None, None, 0, None, <<>>, "ok") /\ UNCHANGED svars

Next ==
  \/ \E by \in {"gov", "u1"} : Register(by) \/ (\E key \in {"denom", "token"} : Toggle(by, key)) \/ (\E al \in Denom : UpdateAlias(by, al))
  \/ \E u \in User, n \in Amt, r \in RecvSet : ConvertCoin(u, n, r) \/ ConvertERC20(u, n, r)
  \/ \E u \in User, n \in Amt, dir \in (IF HasAlias THEN {"toAlias", "toBase"} ELSE {}) : ConvertDenom(u, n, dir)
  \/ \E n \in Amt : Deposit("u1", n) \/ Withdraw("u1", n) \/ TransferFrom(n)
  \/ \E u \in User, n \in Amt : \E r \in TRecvSet \ {u} : Transfer(u, r, n)
  \/ \E s \in {"exe", "u2"}, n \in Amt : Approve("u1", s, n)
  \/ \E p \in Programs : RunProgram(p)
  \/ (Mortal /\ \E by \in {"owner", "u1"} : Kill(by))
  \/ Probe

Spec == Init /\ [][Next]_vars

---------------------------------------------------------------------------
(* PROPERTY C08 — written from the statement, over the state variables and `op` only, evaluable on any  *)
(* projected real state.                                                                               *)

SumTok(t) == SumSet(Holder, t)

\* module-owned token: coins escrowed for it (by the module, or by the wrapper contract for the native coin) = total supply
C08_EscrowEqualsSupply ==
  /\ Kind = "module" => coin["mod"]["b"] = supply + gift
  /\ Kind = "fx" => coin["wrap"]["b"] = supply + gift

\* externally-owned token: tokens escrowed by the module = supply of its coin over base + every bridge denomination
\* (coins in the module's OWN account are its custody of converted denominations, not claims on the escrow)
\* (as long as the token exists: its owner destroying the contract destroys the escrow with it)
C08_LockedEqualsCoinSupply ==
  Kind = "external" /\ ~dead => tok["mod"] = SumSet(Denom, [d \in Denom |-> csupply[d] - coin["mod"][d]]) + gift

\* every ERC-20's balances sum to its total supply
C08_BalancesSumToSupply == SumTok(tok) = supply

\* all coins of the pair's denominations are held by the tracked holders (nothing minted to or burned from anybody else)
C08_CoinsAccounted == \A d \in Denom : csupply[d] = SumSet(Holder, [h \in Holder |-> coin[h][d]])

\* conversions neither create nor destroy value: what users and contracts hold in either form, plus what is on its way out
\* through the bridge, is constant
\* holders of claims: everybody except the escrow account of the respective asset and the bridge module's coin custody
TokH  == IF Kind = "external" THEN Holder \ {"mod"} ELSE Holder
CoinH == (Holder \ {"mod", "eth"}) \ (IF Kind = "fx" THEN {"wrap"} ELSE {})
\* (`lost`: the token claims that went down with a contract its owner destroyed)
TotalValue == SumSet(TokH, tok) + SumSet(CoinH, [h \in CoinH |-> SumSet(Denom, coin[h])]) + pool + calls + gift + lost
C08_ValueConserved == TotalValue = InitU1 + InitU2

\* the denom, contract and alias indexes describe the same set of pairs
\* (an index entry that survives its pair - pointing to no pair record - is as wrong as a pair missing from an index;
\* the alias list in the coin's bank metadata is what the alias index is built from: they agree for a registered pair and,
\* unless the pair was dropped because its contract was destroyed, the metadata lists no alias of an unregistered coin)
C08_IndexesAgree ==
  /\ byDenom["b"] = (IF reg THEN "main" ELSE None)
  /\ byToken = (IF reg THEN "main" ELSE None)
  /\ ~reg => ~enabled
  /\ \A d \in Denom \ {"b"} : byDenom[d] = None
  /\ \A d \in Denom : aliasIdx[d] # None => reg /\ d # "b" /\ aliasIdx[d] = "b"
  /\ (reg \/ ~dead) => \A d \in Denom : mdAlias[d] <=> aliasIdx[d] = "b"

\* a conversion moves exactly the requested amount from sender to receiver and nothing else: among the holders of
\* claims (TokH, CoinH) only the sender's and the receiver's holdings change, by exactly n; the one exception is a
\* receiver that IS the escrow account of the asset it is to receive, which the environment ledger records as a gift
RTok(t)  == [h \in TokH |-> t[h]]
RCoin(c) == [h \in CoinH |-> c[h]]
Same(o) == allow' = allow /\ pool' = pool /\ calls' = calls /\ coin'["eth"] = coin["eth"]
\* a conversion message accepted although the pair's contract no longer exists converts nothing: no coin, no token moves
NothingMoves == coin' = coin /\ csupply' = csupply /\ tok' = tok /\ supply' = supply /\ gift' = gift /\ lost' = lost
A_C08_MovesExactly ==
  LET o == op' IN
  /\ (o.name \in {"ConvertCoin", "ConvertERC20"} /\ o.res = "ok" /\ dead) => NothingMoves /\ Same(o)
  /\ (o.name = "ConvertCoin" /\ o.res = "ok" /\ ~dead) =>
        /\ o.u \in CoinH /\ o.r \in TokH
        /\ RCoin(coin') = [RCoin(coin) EXCEPT ![o.u]["b"] = @ - o.n]
        /\ RTok(tok') = [RTok(tok) EXCEPT ![o.r] = @ + o.n]
        /\ gift' = gift /\ Same(o)
  /\ (o.name = "ConvertERC20" /\ o.res = "ok" /\ ~dead) =>
        /\ o.u \in TokH
        /\ RTok(tok') = [RTok(tok) EXCEPT ![o.u] = @ - o.n]
        /\ IF o.r \in CoinH THEN RCoin(coin') = [RCoin(coin) EXCEPT ![o.r]["b"] = @ + o.n] /\ gift' = gift
           ELSE Kind = "fx" /\ o.r = "wrap" /\ RCoin(coin') = RCoin(coin) /\ gift' = gift + o.n
        /\ Same(o)
  /\ (o.name = "ConvertDenom" /\ o.res = "ok") =>
        /\ RCoin(coin') = [RCoin(coin) EXCEPT ![o.u][IF o.k = "toAlias" THEN "b" ELSE "a"] = @ - o.n,
                                              ![o.u][IF o.k = "toAlias" THEN "a" ELSE "b"] = @ + o.n]
        /\ tok' = tok /\ supply' = supply /\ gift' = gift /\ Same(o)
C08_MovesExactly == [][A_C08_MovesExactly]_vars

\* a refused operation (in particular a refused conversion or a reverted contract transaction) changes nothing
A_C08_RefusedChangesNothing == op'.res = "rej" => UNCHANGED <<coin, csupply, tok, supply, allow, reg, enabled, byDenom, byToken, aliasIdx, mdAlias, pool, calls, gift, dead, lost>>
C08_RefusedChangesNothing == [][A_C08_RefusedChangesNothing]_vars

---------------------------------------------------------------------------
View == svars
Bounded == nconv' <= MaxConv /\ ntok' <= MaxTok /\ ngov' <= MaxGov /\ nprog' <= MaxProg
EdgeDump == /\ IF op.name = "Init" \/ op'.res = "ok"
               THEN PrintT(<<"EDGE", ToJson([from |-> Abs, op |-> op', to |-> Abs'])>>)
               ELSE TRUE
            /\ Bounded
=============================================================================
