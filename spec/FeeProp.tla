------------------------------ MODULE FeeProp ------------------------------
(***************************************************************************)
(* Evaluates the C20 fee formulas of Fee.tla on outcomes RECORDED FROM THE *)
(* REAL CODE.  Line l of the trace file is {case, real}: the case TLC      *)
(* generated and what the real application did with it (real.checktx: the  *)
(* verdict of the real CheckTx of an application constructed with the      *)
(* case's node configuration; real.rule: the verdict of the fee checker    *)
(* that application installs).  Each step installs one line, so every      *)
(* invariant is evaluated on every real outcome.                           *)
(***************************************************************************)
EXTENDS FeeMC
CONSTANT TraceFile
VARIABLE l
Trace == ndJsonDeserialize(TraceFile)

\* JSON arrays arrive as sequences, JSON objects as records: identical to the specification's values
PInit == Init /\ l = 1
PNext == /\ l <= Len(Trace) /\ l' = l + 1
         /\ c' = Trace[l].case
         /\ out' = [rule |-> Trace[l].real.rule, checktx |-> Trace[l].real.checktx]
PSpec == PInit /\ [][PNext]_<<vars, l>>

Consumed == TLCGet("stats").diameter - 1 = Len(Trace)
=============================================================================
