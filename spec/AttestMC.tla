------------------------------ MODULE AttestMC ------------------------------
EXTENDS Attest
StakeEq   == [o \in Oracle |-> 1]
StakeSkew == [o \in Oracle |-> CASE o = "o1" -> 5 [] o = "o2" -> 3 [] o = "o3" -> 2 [] OTHER -> 1]
\* one oracle just below the 66% bar / two of three exactly on it
StakeEdge2 == [o \in Oracle |-> CASE o = "o1" -> 65 [] o = "o2" -> 35 [] OTHER -> 1]
\* total not a multiple of 100 (the bar 66*total/100 truncates differently from (total/100)*66); one oracle holds just over half
StakeOdd2 == [o \in Oracle |-> CASE o = "o1" -> 100 [] o = "o2" -> 99 [] OTHER -> 1]
StakeRec == [o \in Oracle |-> CASE o = "o1" -> 40 [] o = "o2" -> 30 [] o = "o3" -> 20 [] o = "o4" -> 10 [] OTHER -> 5]
StakeEdge3 == [o \in Oracle |-> CASE o = "o1" -> 34 [] o = "o2" -> 33 [] o = "o3" -> 33 [] OTHER -> 1]
=============================================================================
