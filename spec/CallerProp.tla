----------------------------- MODULE CallerProp -----------------------------
(* Evaluates Caller.tla's property formulas on behaviours recorded from the real application
   (see AttestProp.tla for the scheme). *)
EXTENDS CallerMC
CONSTANT TraceFile
VARIABLE l
Trace == ndJsonDeserialize(TraceFile)

InstallSt(st) ==
  /\ fx' = st.fx /\ frac' = st.frac /\ tok' = st.tok /\ coin' = st.coin /\ sh' = st.sh /\ sh1' = st.sh1 /\ rew' = st.rew
  /\ allow' = st.allow /\ ubd' = st.ubd /\ red' = st.red /\ pool' = st.pool /\ calls' = st.calls /\ parked' = st.parked
  /\ switch' = st.switch /\ slashed' = st.slashed /\ ncall' = st.ncall /\ UNCHANGED napp

PInit == Init /\ l = 1
PNext == /\ l <= Len(Trace) /\ l' = l + 1
         /\ InstallSt(Trace[l].st) /\ op' = Trace[l].op
PSpec == PInit /\ [][PNext]_<<vars, l>>

R(A) == op'.name = "Reset" \/ A
P_C10_OnlyDirectCaller  == [][R(A_C10_OnlyDirectCaller)]_<<vars, l>>
P_C10_AllowanceBound    == [][R(A_C10_AllowanceBound)]_<<vars, l>>
P_C10_WriteNeedsCall    == [][R(A_C10_WriteNeedsCall)]_<<vars, l>>
P_C10_DisabledNeverRuns == [][R(A_C10_DisabledNeverRuns)]_<<vars, l>>
P_C10_RefusedIsNoop     == [][R(A_C10_RefusedIsNoop)]_<<vars, l>>
P_C10_RevertedIsNoop    == [][R(A_C10_RevertedIsNoop)]_<<vars, l>>

Consumed == TLCGet("stats").diameter - 1 = Len(Trace)
=============================================================================
