------------------------------ MODULE ConfirmMC ------------------------------
EXTENDS Confirm
\* the registry the harness sets up: oracle o<i> has bridger b<i> and external address e<i>
BridgerStd == [o \in Oracle |-> CASE o = "o1" -> "b1" [] o = "o2" -> "b2" [] OTHER -> "b3"]
ExtStd     == [o \in Oracle |-> CASE o = "o1" -> "e1" [] o = "o2" -> "e2" [] OTHER -> "e3"]
=============================================================================
