----------------------------- MODULE Erc20Prop -----------------------------
(***************************************************************************)
(* Evaluates the C08 formulas of Erc20.tla on behaviours RECORDED FROM THE *)
(* REAL APPLICATION: each step installs the projected real state and the   *)
(* operation that produced it (line l of the trace file).  Lines with      *)
(* op.name = "Reset" start a new recorded behaviour.                       *)
(***************************************************************************)
EXTENDS Erc20MC
CONSTANT TraceFile
VARIABLE l
Trace == ndJsonDeserialize(TraceFile)

Install(st) ==
  /\ coin' = st.coin /\ csupply' = st.csupply /\ tok' = st.tok /\ supply' = st.supply /\ allow' = st.allow
  /\ reg' = st.reg /\ enabled' = st.enabled /\ byDenom' = st.byDenom /\ byToken' = st.byToken
  /\ aliasIdx' = st.aliasIdx /\ mdAlias' = st.mdAlias /\ pool' = st.pool /\ calls' = st.calls /\ gift' = st.gift
  /\ dead' = st.dead /\ lost' = st.lost
  /\ UNCHANGED <<nconv, ntok, ngov, nprog>>

PInit == Init /\ l = 1
PNext == /\ l <= Len(Trace) /\ l' = l + 1
         /\ Install(Trace[l].st) /\ op' = Trace[l].op
PSpec == PInit /\ [][PNext]_<<vars, l>>

R(A) == op'.name = "Reset" \/ A
P_C08_MovesExactly          == [][R(A_C08_MovesExactly)]_<<vars, l>>
P_C08_RefusedChangesNothing == [][R(A_C08_RefusedChangesNothing)]_<<vars, l>>

Consumed == TLCGet("stats").diameter - 1 = Len(Trace)
=============================================================================
