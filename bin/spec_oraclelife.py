"""OracleLife.tla : C13"""
import specs
from specs import graph_property

# =====================================================================================================
# OracleLife.tla : C13  (oracle registry one-to-one; stake recoverable; only missed signing is slashed)
# =====================================================================================================
OL_RESET = dict(name="Reset", o="none", b="none", e="none", v="none", n=0, set=[], res="ok")

OL_FORMULAS = {
    "C13": dict(
        invariants=["C13_IndexesOneToOne", "C13_StakeInBounds", "C13_StakeMatchesDelegation", "C13_NoValueCreated",
                    "C13_PenaltyBounded", "C13_NothingLeftBehind"],
        properties=["C13_OnlyApprovedBond", "C13_PenaltyOnce", "C13_RecoverableOnce", "C13_RemovalNotBlocked",
                    "C13_ConfirmerNeverSlashed", "C13_OfflineOnlyForCause", "C13_JoinedOnActivation"],
        p_properties=["P_C13_OnlyApprovedBond", "P_C13_PenaltyOnce", "P_C13_RecoverableOnce", "P_C13_RemovalNotBlocked",
                      "P_C13_ConfirmerNeverSlashed", "P_C13_OfflineOnlyForCause", "P_C13_JoinedOnActivation"]),
}

O2, O3 = ["o1", "o2"], ["o1", "o2", "o3"]
B2, B3 = ["b1", "b2"], ["b1", "b2", "b3"]
E2 = ["e1", "e2"]
V2 = ["v1", "v2"]
THR, MULT = 2, 4   # stake bounds [2, 8] coins (1 coin = 1 power unit = 1e20 base units)


def ol_consts(oracles, bridgers, bondvals, bonds, govs, mops, time, rewards=0, slashop=True, objects=True, ages=None, ops=None, vals=V2):
    """mops bounds AddDelegate/ReDelegate/EditBridger/WithdrawReward/Slash, ages bounds ObjectAges, ops bounds their sum
    (default: one shared budget of `mops` operations)."""
    ages = mops if ages is None else ages
    ops = max(mops, ages) if ops is None else ops
    return dict(Oracle=oracles, Bridger=bridgers, Ext=E2, Val=vals, BondVals=bondvals, Thr=THR, Mult=MULT,
                WithRewards=rewards > 0, WithSlashOp=slashop, WithObjects=objects,
                MaxBonds=bonds, MaxGovs=govs, MaxMops=mops, MaxAges=ages, MaxOps=ops, MaxTime=time, MaxRewards=rewards)


def ol_harness(chain, oracles, bridgers, vals=V2):
    return dict(chain=chain, Oracle=oracles, Bridger=bridgers, Ext=E2, Val=vals, Thr=THR, Mult=MULT)


QUICK_AMTS = {"BondAmts": "BondQuick", "AddAmts": "AddQuick"}
FULL_AMTS = {"BondAmts": "BondFull", "AddAmts": "AddFull"}
DEV_AMTS = {"BondAmts": "BondDev", "AddAmts": "AddDev"}

OL_MC = [
    dict(name="mcdev", tiers=["dev"], consts=ol_consts(O2, B2, ["v1"], 2, 2, 1, 1), overrides=DEV_AMTS, timeout=300),
    dict(name="mc2", tiers=["quick"], consts=ol_consts(O2, B2, ["v1"], 2, 2, 2, 1), overrides=QUICK_AMTS, timeout=600),
    dict(name="mc2join", tiers=["quick", "thorough"], consts=ol_consts(O2, B2, ["v1"], 2, 2, 1, 0, slashop=False, ages=2, ops=3, vals=["v1"]),
         overrides=DEV_AMTS, timeout=600),
    dict(name="mc2deep", tiers=["thorough"], consts=ol_consts(O2, B2, V2, 3, 3, 2, 1), overrides=QUICK_AMTS, timeout=1500),
    dict(name="mc2full", tiers=["thorough"], consts=ol_consts(O2, B2, V2, 2, 2, 1, 1), overrides=FULL_AMTS, timeout=1500),
    dict(name="mc2rew", tiers=["thorough"], consts=ol_consts(O2, B2, ["v1"], 2, 2, 2, 1, rewards=1, slashop=False),
         overrides=QUICK_AMTS, timeout=1500),
    dict(name="mc3", tiers=["thorough"], consts=ol_consts(O3, B3, ["v1"], 3, 2, 1, 1, slashop=False), overrides=DEV_AMTS, timeout=1500),
]
OL_GEN = [
    dict(name="gendev", tiers=["dev"], consts=ol_consts(O2, B2, ["v1"], 2, 2, 1, 1), overrides=DEV_AMTS,
         harness=[ol_harness("eth", O2, B2)], shards=8, rej_sample=2, timeout=600),
    dict(name="gen2", tiers=["quick"], consts=ol_consts(O2, B2, ["v1"], 2, 2, 1, 1), overrides=QUICK_AMTS,
         harness=[ol_harness("eth", O2, B2)], shards=14, rej_sample=2, timeout=600),
    # (re)joining: bond, bond, governance removal, a request created and aged while the oracle is away, re-admission,
    # AddDelegate, the next request ages: the re-admitted oracle answers only for requests created after it came back
    dict(name="gen2join", tiers=["quick", "thorough"],
         consts=ol_consts(O2, B2, ["v1"], 2, 2, 1, 0, slashop=False, ages=2, ops=3, vals=["v1"]), overrides=DEV_AMTS,
         harness=[ol_harness("eth", O2, B2, vals=["v1"])], shards=14, rej_sample=1, timeout=600,
         may_never_succeed=("Unbond", "ReDelegate", "WithdrawReward")),   # no TimePasses, one validator in this configuration
    # every operation of the alphabet (accepted or not) in every state, all amounts
    dict(name="gen2full", tiers=["thorough"], consts=ol_consts(O2, B2, ["v1"], 2, 2, 1, 1), overrides=FULL_AMTS,
         harness=[ol_harness("eth", O2, B2)], shards=16, rej_sample=0, timeout=1500),
    # deeper histories, rejected operations sampled
    dict(name="gen2deep", tiers=["thorough"], consts=ol_consts(O2, B2, ["v1"], 2, 2, 2, 1, slashop=False), overrides=DEV_AMTS,
         harness=[ol_harness("bsc", O2, B2)], shards=16, rej_sample=2, timeout=1500),
    # staking rewards: Reward / WithdrawReward
    dict(name="gen2rew", tiers=["thorough"], consts=ol_consts(O2, B2, ["v1"], 2, 2, 1, 0, rewards=1, slashop=False), overrides=DEV_AMTS,
         harness=[ol_harness("eth", O2, B2)], shards=16, rej_sample=2, timeout=1500,
         may_never_succeed=("Unbond",)),   # no TimePasses in this configuration
    # three oracles competing for three bridger and two external addresses: full life cycle, every operation in every state
    dict(name="gen3", tiers=["thorough"], consts=ol_consts(O3, B3, ["v1"], 3, 2, 0, 1, slashop=False), overrides=DEV_AMTS,
         harness=[ol_harness("eth", O3, B3)], shards=16, rej_sample=0, timeout=1500,
         may_never_succeed=("WithdrawReward",)),   # needs a re-activation (AddDelegate) after a matured removal: MaxMops = 0 here
]


def oraclelife(pid):
    def run(work, args):
        return graph_property(
            work, args, pid=pid, module="OracleLife", mcmodule="OracleLifeMC", pkg="oraclelife", formulas=OL_FORMULAS[pid],
            mc_cfgs=OL_MC, gen_cfgs=OL_GEN, reset_op=OL_RESET,
            level_note="", design_ref="5/C13",
            assumptions=[
                "money is counted in coins of 1e20 base units (= one power unit); all amounts the operations move are whole, even numbers of coins so that the 1/2 slash fraction stays exact",
                "params (threshold 2 coins, multiple 4, slash fraction 1/2, signed window 2, oracle-set power-change threshold 0) are set once through MsgUpdateParams; parameter changes during an oracle's life are not explored",
                "Slash(o) applies end-block slashing to one oracle at keeper level (SlashOracle+SetLastTotalPower); ObjectAges is the one real end-block path (oracle-set requests, real signed confirmations, real crosschain EndBlocker); batches and bridge calls as slashing cause are EndBlock.tla's subject",
                "TimePasses advances the block time beyond the staking unbonding period on the branch and runs staking's real BlockValidatorUpdates; all pending unbonding entries mature together",
                "validator slashing / jailing is not modelled",
                "MsgEditBridger is driven through the message server directly (its ValidateBasic cannot pass on this tree)",
                "the abstraction function reads the crosschain store prefixes 0x12 0x13 0x14 0x38 raw, staking delegations / unbonding delegations / redelegations of the delegate addresses, bank balances and total supply, and distribution's pending rewards",
            ])
    return run


specs.REGISTRY["C13"] = oraclelife("C13")

specs.MANIFEST.update({
 "C13": dict(category="model_checking", technique="TLA+ spec OracleLife.tla: TLC exhaustive model check + replay of every TLC-generated transition on the real crosschain/staking/bank/distribution keepers + TLC evaluation of the C13 formulas on recorded real behaviours",
             text="OracleLife.tla models the oracle registry of one bridge module as three separate stores (records, bridger index, external-address index), the governance list, and where every oracle's stake is (recorded, really delegated, unbonding, liquid at the keyless delegate address, back on the oracle account, burned as penalty). TLC checks on all interleavings of bond / add-delegate / re-delegate / edit-bridger / withdraw-reward / slash / governance list updates / elapse of the unbonding period / unbond of a bounded oracle population: indexes one-to-one and agreeing with the records, only approved oracles bond with stake inside the bounds, recorded stake = delegated stake (an oracle is online only with its stake delegated; after removal the recorded stake is still held for it), penalties <= stake and charged once, after removal and maturity UnbondedOracle must succeed and pays stake minus penalty exactly once and leaves nothing behind, no coin created or lost, governance removal is never blocked, an oracle that confirmed every oracle-set request it is obliged to is never taken offline. Every generated transition is executed on branches of the real multistore (real staking unbonding queue advanced, real signed MsgOracleSetConfirm, real crosschain EndBlocker) with the projected real state compared after each step; the formulas are then evaluated by TLC on the recorded real behaviours.",
             note="bounded: 2 oracles, 2 bridger and 2 external addresses competing, 2 validators, stake amounts around the bounds [2,8] coins, <=2-3 operations of each class; slashing cause exact only for oracle-set requests (batches / bridge calls: EndBlock.tla); no validator slashing; trusted: TLC, the abstraction function (raw store reads)", ref="5 (C13)"),
})
