"""Outgoing.tla : C04, C05, C06"""
import json, os
import specs
from specs import graph_property

RESET = dict(name="Reset", u="none", id=0, a=0, f=0, e="none", res="ok")
FORMULAS = {
    "C04": dict(invariants=["C04_Conservation", "C04_NonNegative"],
                properties=["C04_NoThirdParty", "C04_Withdrawable"],
                p_properties=["P_C04_NoThirdParty", "P_C04_Withdrawable"]),
    "C05": dict(invariants=["C05_IdsFresh", "C05_OnePlace", "C05_NoEmptyBatch", "C05_StatesLegal"],
                properties=["C05_CountersMonotone", "C05_SettledOnce", "C05_QueuedAsSupplied", "C05_CancelExact",
                            "C05_LeavesOnlyBySettlement", "C05_FeeIncreaseExact", "C05_CancelBatchRestores", "C05_CallSettlement", "C05_NoRefundAfterObservedExecution", "C05_TimeoutRefundExact"],
                p_properties=["P_C05_CountersMonotone", "P_C05_SettledOnce", "P_C05_QueuedAsSupplied", "P_C05_CancelExact",
                              "P_C05_LeavesOnlyBySettlement", "P_C05_FeeIncreaseExact", "P_C05_CancelBatchRestores", "P_C05_CallSettlement", "P_C05_NoRefundAfterObservedExecution", "P_C05_TimeoutRefundExact"]),
    "C06": dict(invariants=["C06_TimeoutAfterObserved", "C06_NeverBoth"],
                properties=["C06_TimeoutOnlyWhenProven", "C06_NothingBeforeObservation"],
                p_properties=["P_C06_TimeoutOnlyWhenProven", "P_C06_NothingBeforeObservation"]),
}
U2 = ["u1", "u2"]


def consts(tx, bt, cl, fxh, exth, ev, fee, base, minf, kb=1, kc=1, dep=1, init=3, feeops=True, entries=("msg",), depkinds=("dep",)):
    return dict(User=U2, MaxTx=tx, MaxBatch=bt, MaxCall=cl, MaxDep=dep, MaxFx=fxh, MaxExt=exth, MaxEv=ev, Amt=[1], Fee=fee,
                BaseFees=base, MinFees=minf, InitBal=init, KB=kb, KC=kc, FeeOps=feeops, Entries=list(entries), DepKinds=list(depkinds))


def harness(chain, c, token="FX"):
    return dict(chain=chain, Token=token, User=c["User"], MaxTx=c["MaxTx"], MaxBatch=c["MaxBatch"], MaxCall=c["MaxCall"], MaxEv=c["MaxEv"],
                InitBal=c["InitBal"], KB=c["KB"], KC=c["KC"])


def cfg(name, tiers, c, shards=14, rej_sample=0, chains=("eth",), token="FX", **kw):
    return dict(name=name, tiers=tiers, consts=c, harness=[harness(ch, c, token) for ch in chains], shards=shards, rej_sample=rej_sample, **kw)


DEV = consts(1, 1, 0, 1, 1, 2, [1], [0], [1])
POOL_Q = consts(2, 2, 0, 1, 1, 3, [1, 2], [0, 2], [1, 3])
CALL_Q = consts(0, 0, 2, 0, 2, 4, [1], [0], [1])
CALLDEP_Q = consts(0, 0, 1, 0, 1, 3, [1], [0], [1], dep=2)   # result parked, then a deposit event at height >= timeout
CALLDEP_T = consts(0, 0, 2, 0, 2, 4, [1], [0], [1], dep=2)
MIXPAIR_Q = consts(1, 1, 1, 0, 2, 4, [1], [0], [1], feeops=False, entries=("msg", "evm"), depkinds=("dep", "depc"))   # same family on a module-owned ERC-20 pair (bridge denomination + base coin)
MIX_Q = consts(1, 1, 1, 0, 2, 4, [1], [0], [1])
POOL_T = consts(2, 2, 0, 2, 2, 3, [1, 2], [0, 2], [1, 3])
CALL_T = consts(0, 0, 2, 1, 3, 4, [1], [0], [1], kc=2)    # 355k states: model-checked only (its graph, 3.5M abstract states, does not fit the replay shards)
CALL_TG = consts(0, 0, 2, 0, 3, 4, [1], [0], [1], kc=2)   # 71k states: the thorough replay family for bridge calls
MIX_T = consts(2, 1, 1, 1, 2, 4, [1], [0], [1])

MC = [
    dict(name="pool", tiers=["quick", "thorough"], consts=POOL_T),
    dict(name="call", tiers=["quick", "thorough"], consts=CALL_T),
    dict(name="mix", tiers=["thorough"], consts=MIX_T, timeout=2400),
    dict(name="mixq", tiers=["quick"], consts=MIX_Q),
    dict(name="calldep", tiers=["quick", "thorough", "dev"], consts=CALLDEP_T),
    dict(name="dev", tiers=["dev"], consts=DEV),
]
GEN = [
    cfg("dev", ["dev"], DEV, rej_sample=3),
    cfg("pool", ["quick"], POOL_Q, rej_sample=2),
    cfg("call", ["quick"], CALL_Q, rej_sample=2),
    cfg("calldep", ["quick", "dev"], CALLDEP_Q, rej_sample=0),
    cfg("mix", ["quick"], MIX_Q, rej_sample=2),
    cfg("mixpair", ["quick", "dev"], MIXPAIR_Q, rej_sample=2, token="module"),
    cfg("mixpairX", ["thorough"], MIXPAIR_Q, shards=16, token="module"),
    cfg("calldepX", ["thorough"], CALLDEP_Q, shards=8),
    cfg("poolT", ["thorough"], POOL_T, shards=16),
    cfg("callT", ["thorough"], CALL_TG, shards=16),
    cfg("mixX", ["thorough"], MIX_Q, shards=16, chains=("eth", "bsc")),   # MIX_T (416k states) is model-checked only: its graph does not fit the replay shards' memory
]


REC_CONSTS = dict(User=["u1", "u2", "u3"], MaxTx=5, MaxBatch=3, MaxCall=3, MaxDep=3, MaxFx=6, MaxExt=8, MaxEv=9, Amt=[1, 2], Fee=[1, 2],
                  BaseFees=[0, 1, 2], MinFees=[1, 3], InitBal=6, KB=1, KC=2, FeeOps=True, Entries=["msg"], DepKinds=["dep"])
RECORDER = specs.make_recorder(module="Outgoing", mcmodule="OutgoingMC", pkg="outgoing", name="outgoing3", consts=REC_CONSTS, overrides=None,
                               harness=harness("eth", REC_CONSTS), reset_op=RESET, tiers=["quick", "thorough", "dev"], walks=6, walklen=80, procs=8)

ASSUMPTIONS = [
    "token = FX (bridge token registered at keeper level, module pre-funded with liquidity); other token kinds are exercised by Erc20/Tolerated specs",
    "the external chain is simulated by the harness with FxBridgeLogic.sol's rules (block.number < timeout, batch nonce increasing per token, bridge-call nonce once); its state travels in a harness-private key of the module store",
    "one honest oracle holds all power: observation = one claim, in event-nonce order (vote interleavings are Attest.tla's subject)",
    "user operations enter as Cosmos messages through the real router; executeClaim through the real precompile in an EVM transaction",
    "FxBlock runs the application's real EndBlocker/BeginBlocker on the branch; fxcore's height is set far above all external heights",
]


BULK_RESET = dict(name="Reset", k=0, res="ok")
BULK_FORMULAS = {
    "C04": dict(invariants=["C04_BulkConservation"], properties=[], p_properties=[]),
    "C05": dict(invariants=["C05_BulkOnePlace", "C05_BulkBatchWithinLimit"], properties=[], p_properties=[]),
}
BULK_CONSTS = dict(Ks=[2, 99, 101], Limit=100, MaxSent=202, MaxBatches=2, MaxBlocks=1, InitBal=500)
BULK_HARNESS = dict(chain="eth", Token="FX", User=["u1"], MaxTx=0, MaxBatch=0, MaxCall=0, MaxEv=1, InitBal=500, KB=1, KC=1)
BULK_MC = [dict(name="bulk", tiers=["quick", "thorough", "dev"], consts=BULK_CONSTS)]
BULK_GEN = [dict(name="bulk", tiers=["quick", "thorough", "dev"], consts=BULK_CONSTS, harness=[BULK_HARNESS], shards=8, rej_sample=0)]


TOK_RESET = dict(name="Reset", u="none", k="none", id=0, res="ok")
TOK_FORMULAS = {
    "C04": dict(invariants=["C04_TokConservation"], properties=[], p_properties=[]),
    "C05": dict(invariants=["C05_TokOnePlace", "C05_TokNoEmptyBatch"], properties=["C05_TokImmutable", "C05_TokCancelExact"],
                p_properties=["P_C05_TokImmutable", "P_C05_TokCancelExact"]),
    "C06": dict(invariants=[], properties=["C06_TokReleaseOnlyWhenProven"], p_properties=["P_C06_TokReleaseOnlyWhenProven"]),
}
TOK_CONSTS = dict(User=["u1"], Token=["x", "y"], MaxTx=3, MaxBatch=2, MaxFx=1, MaxExt=1, MaxEv=2, InitBal=4, KB=1)
TOK_CONSTS_T = dict(User=["u1", "u2"], Token=["x", "y"], MaxTx=3, MaxBatch=2, MaxFx=1, MaxExt=1, MaxEv=2, InitBal=4, KB=1)   # 111k states (3 batches / 2 blocks on both chains: 950k, too large to replay)


def tok_harness(c):
    return dict(chain="eth", Token="FX", User=c["User"], MaxTx=c["MaxTx"], MaxBatch=c["MaxBatch"], MaxCall=0, MaxEv=c["MaxEv"], InitBal=c["InitBal"], KB=c["KB"], KC=1)


TOK_MC = [dict(name="tok", tiers=["quick", "dev"], consts=TOK_CONSTS), dict(name="tokT", tiers=["thorough"], consts=TOK_CONSTS_T)]
TOK_GEN = [dict(name="tok", tiers=["quick", "dev"], consts=TOK_CONSTS, harness=[tok_harness(TOK_CONSTS)], shards=8, rej_sample=2),
           dict(name="tokT", tiers=["thorough"], consts=TOK_CONSTS_T, harness=[tok_harness(TOK_CONSTS_T)], shards=16, rej_sample=0)]


TOK_REC_CONSTS = dict(User=["u1", "u2"], Token=["x", "y"], MaxTx=8, MaxBatch=5, MaxFx=6, MaxExt=6, MaxEv=7, InitBal=8, KB=2)
TOK_RECORDER = specs.make_recorder(module="OutgoingTok", mcmodule="OutgoingTokMC", pkg="outgoing", name="tok2", consts=TOK_REC_CONSTS, overrides=None,
                                   harness=tok_harness(TOK_REC_CONSTS), reset_op=TOK_RESET, tiers=["quick", "thorough", "dev"], walks=6, walklen=60, procs=4,
                                   test="TestRecordTok")


def outgoing(pid):
    def run(work, args):
        kw = dict(pid=pid, module="Outgoing", mcmodule="OutgoingMC", pkg="outgoing", formulas=FORMULAS[pid],
                  mc_cfgs=MC, gen_cfgs=GEN, reset_op=RESET, level_note="", design_ref="5/C04-C06", assumptions=ASSUMPTIONS, recorder=RECORDER)
        rp = getattr(args, "replay", None)
        rmod = json.load(open(rp)).get("module") if rp else None
        import spec_attest
        akw = dict(pid=pid, module="Attest", mcmodule="AttestMC", pkg="attest",
                   formulas=dict(invariants=["C06_HeightFromObservedOnly"], properties=[], p_properties=[]),
                   mc_cfgs=[spec_attest.ATTEST_MC_HEIGHT], gen_cfgs=[spec_attest.ATTEST_GEN_HEIGHT],
                   reset_op=spec_attest.ATTEST_RESET, level_note="", design_ref="5/C06", assumptions=[], never_ok=("Unbond",))
        bkw = dict(pid=pid, module="OutgoingBulk", mcmodule="OutgoingBulkMC", pkg="outgoing", formulas=BULK_FORMULAS.get(pid),
                   mc_cfgs=BULK_MC, gen_cfgs=BULK_GEN, reset_op=BULK_RESET, level_note="", design_ref="5/C04-C05", assumptions=[],
                   test="TestReplayBulk", test_path="TestPathBulk")
        tkw = dict(pid=pid, module="OutgoingTok", mcmodule="OutgoingTokMC", pkg="outgoing", formulas=TOK_FORMULAS[pid],
                   mc_cfgs=TOK_MC, gen_cfgs=TOK_GEN, reset_op=TOK_RESET, level_note="", design_ref="5/C04-C06", assumptions=[],
                   test="TestReplayTok", test_path="TestPathTok", recorder=TOK_RECORDER)
        if rp:
            if rmod == "OutgoingTok":
                return graph_property(work, args, **tkw)
            if rmod == "Attest":
                return graph_property(work, args, **akw)
            if rmod == "OutgoingBulk":
                return graph_property(work, args, **bkw)
            return graph_property(work, args, **kw)
        part = os.environ.get("VERIF_PART")   # development aid: run one part of the composition only
        if part:
            return graph_property(work, args, **{"tok": tkw, "bulk": bkw, "attest": akw, "main": kw}[part])
        # main part
        rc1, ev1, viol1, dev1 = graph_property(work, args, write=False, **kw)
        if viol1:
            return specs.finish(work, pid, ev1, ASSUMPTIONS, viol1, dev1)
        if pid == "C06":
            # one clause of C06 lives in the attestation logic: the observed external height is the height of the event
            # the QUORUM observed (a minority vote, or a vote reporting another height, must not move it): Attest.tla
            rc2, ev2, viol2, dev2 = graph_property(work, args, write=False, **akw)
            extra = ["the clause 'observed external height only from the observed event' is checked on Attest.tla (two oracles, a variant of the same deposit reported at another height)"]
        else:
            # C04/C05 at the batch size limit (100 transfers): OutgoingBulk.tla
            rc2, ev2, viol2, dev2 = graph_property(work, args, write=False, **bkw)
            extra = ["the batch size limit (more than 100 pending transfers) is checked on the counting specification OutgoingBulk.tla"]
        ev = specs.merge_evidence(ev1, ev2)
        if viol2:
            return specs.finish(work, pid, ev, ASSUMPTIONS + extra, viol2, dev1 + dev2)
        # everything that must hold PER TOKEN (two tokens in one bridge module): OutgoingTok.tla
        rc3, ev3, viol3, dev3 = graph_property(work, args, write=False, **tkw)
        extra.append("per-token clauses (batch selection, cancellation of older batches, timeouts, conservation with two tokens in one module) are checked on OutgoingTok.tla")
        ev = specs.merge_evidence(ev, ev3)
        return specs.finish(work, pid, ev, ASSUMPTIONS + extra, viol3, dev1 + dev2 + dev3)
    return run


for p in ("C04", "C05", "C06"):
    specs.REGISTRY[p] = outgoing(p)

_TECH = "TLA+ specs Outgoing.tla (fxcore outgoing side + explicit external-chain environment), OutgoingBulk.tla (batch size limit), OutgoingTok.tla (two tokens in one module) and, for C06, Attest.tla (observed height): TLC exhaustive model check + replay of every TLC-generated transition on the real keeper + randomized recorders validated by TLC against the trace specifications + TLC evaluation of the %s formulas on recorded real behaviours"
_NOTE = "bounded: 2 users, <=2 transfers, <=2 batches, <=2 bridge calls, <=2 deposits per family (recorders: 3 users, 5-8 transfers, 3-5 batches), token FX or a module-owned ERC-20 pair (entry by message or precompile), two tokens together in the OutgoingTok family, 2/99/101 transfers at the batch limit, one honest oracle quorum; external chain simulated from FxBridgeLogic.sol's three rules; trusted: TLC, abstraction function (raw store reads + bank balances), the environment ledger kept by the harness"
specs.MANIFEST.update({
    "C04": dict(category="model_checking", technique=_TECH % "C04", ref="5 (C04-C06)", note=_NOTE,
                text="Conservation: holdings + pooled/batched transfers + open bridge calls (not yet observed as executed) + parked deposits = initial + observed deposits - withdrawals observed as executed, in every state of every interleaving of send/cancel/increase-fee/request-batch/bridge-call, block progress on both chains, external executions and in-order observation with parked claims; an operation changes only the balance of the account it names; a send within the holder's balance is never refused."),
    "C05": dict(category="model_checking", technique=_TECH % "C05", ref="5 (C04-C06)", note=_NOTE,
                text="Every transfer/batch/call id is fresh and in exactly one place (pool, exactly one open batch, or gone for good); records are immutable from creation to settlement except the fee via increase-fee (payer pays exactly the added fee); only the creator cancels and gets exactly amount+fee; a transfer leaves only by cancel or by the observed execution of its batch; a cancelled batch returns its transfers to the pool unchanged; a bridge call is settled by its executed result (refund exactly its amount on failure) or a timeout refund."),
    "C06": dict(category="model_checking", technique=_TECH % "C06", ref="5 (C04-C06)", note=_NOTE,
                text="A batch or outgoing bridge call is released for timeout only in an observation step whose event proves the external height beyond (batch) / at (call) its timeout; nothing is batched or sent before an external height has been observed; cross-chain ledger invariant NeverBoth: value on fxcore + value locked outside - records already run externally + inbound deposits = initial + locked - released, i.e. nothing the external chain has released is also refunded on fxcore."),
})
