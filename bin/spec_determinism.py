"""Determinism.tla : C17.  Histories = seeded walks over the TLC-generated graphs of the other
specifications, executed on the real application by independent OS processes; TLC checks that every
process recorded the same state digest, result and event digest for every step."""
import json, os
import specs, vlib
from vlib import Infra, log

# (name, spec module for generation, harness package, generation constants, overrides, harness constants)
def _sources():
    import spec_attest, spec_outgoing
    src = [
        dict(name="attest", mcmodule="AttestMC", pkg="attest", consts=spec_attest.attest_consts(spec_attest.O2, spec_attest.B3, 2, 1, 3),
             overrides={"Stake": "StakeEdge2"}, harness=spec_attest.attest_harness("eth", spec_attest.O2, spec_attest.B3, 2, spec_attest.STAKES["StakeEdge2"])),
        dict(name="outgoing", mcmodule="OutgoingMC", pkg="outgoing", consts=spec_outgoing.MIX_Q, overrides=None,
             harness=spec_outgoing.harness("eth", spec_outgoing.MIX_Q)),
    ]
    src.append(dict(name="multi", mcmodule="MultiMC", pkg="multi", consts=dict(N=12, Ks=[2, 3], MaxCalls=2, MaxBlocks=2, MaxSends=6, MaxIbc=2), overrides=None,
                    harness=dict(chain="eth", N=12), walks_factor=2))
    for extra in EXTRA_SOURCES:
        try:
            src.append(extra())
        except Exception as e:  # a source whose spec is not present is skipped, and recorded
            log("determinism source skipped:", e)
    return src


def _from_gen(modname, listname, name, mcmodule, pkg, tier="dev"):
    def f():
        import importlib
        m = importlib.import_module(modname)
        for c in getattr(m, listname):
            if tier in c["tiers"]:
                return dict(name=name, mcmodule=mcmodule, pkg=pkg, consts=c["consts"], overrides=c.get("overrides"), harness=c["harness"][0])
        raise RuntimeError("no %s config in %s.%s" % (tier, modname, listname))
    return f


EXTRA_SOURCES = [
    _from_gen("spec_gov", "GOV_GEN", "gov", "GovMC", "gov"),
    _from_gen("spec_migrate", "MIG_GEN", "migrate", "MigrateMC", "migrate"),
    _from_gen("spec_shares", "SHARES_GEN", "shares", "SharesMC", "shares"),
    _from_gen("spec_oraclelife", "OL_GEN", "oraclelife", "OracleLifeMC", "oraclelife"),
]

# the third process also executes the walks in the opposite order: a walk's result must not depend on what the process
# executed (on other, discarded branches) before it
RUNS = [dict(GOMAXPROCS="1"), dict(GOMAXPROCS="4"), dict(GOMAXPROCS="16", GOGC="20", VERIF_WALK_ORDER="rev")]


def run(work, args):
    tier = work.tier
    walks, walklen = (12, 10) if tier != "thorough" else (150, 16)
    merged = work.path("determinism.ndjson")
    n_lines, per_source, samples = 0, [], []
    with open(merged, "w") as out:
        for s in _sources():
            cfg = work.path("gen-%s.cfg" % s["name"])
            vlib.write_cfg(cfg, init="Init", next_="Next", consts=s["consts"], overrides=s["overrides"], view="View", action_constraint="EdgeDump")
            edges = work.path("gen-%s.out" % s["name"])
            r = vlib.run_tlc(work, s["mcmodule"] + ".tla", cfg, edges, workers=1, timeout=1500)
            if r["error"] or r["rc"] != 0:
                raise Infra("generation for %s failed: %s" % (s["name"], r["error"]))
            binary = vlib.build(work, s["pkg"])
            # compile once (vlib.replay does it lazily; do it here the same way)
            comp = work.path("compile.bin")
            if not os.path.exists(comp):
                import subprocess
                p = subprocess.run(["go", "build", "-o", comp, "./cmd/compile"], cwd=work.path("harness"), env=dict(os.environ, **vlib.GOENV),
                                   stdout=subprocess.PIPE, stderr=subprocess.STDOUT, text=True)
                if p.returncode != 0:
                    raise Infra("compile tool build failed: " + p.stdout[-1500:])
            import subprocess
            compact = edges + ".graph"
            p = subprocess.run([comp, edges, compact], stdout=subprocess.PIPE, stderr=subprocess.STDOUT, text=True)
            if p.returncode != 0:
                raise Infra("graph compile failed: " + p.stdout[-1500:])
            procs = []
            for i, extra in enumerate(RUNS):
                tf = work.path("walks-%s-%d.ndjson" % (s["name"], i))
                env = dict(VERIF_EDGES=compact, VERIF_CONST=json.dumps(s["harness"]), VERIF_TRACES=tf, VERIF_WALKS=walks * s.get("walks_factor", 1),
                           VERIF_WALKLEN=walklen, VERIF_DET="1")
                env.update(extra)
                held = vlib.acquire_slots(1)
                procs.append((i, tf, vlib.run_harness(work, binary, "TestWalks", env, work.path("walks-%s-%d.log" % (s["name"], i))), held))
            counts = []
            for i, tf, p, held in procs:
                rc = p.wait()
                vlib.release_slots(held)
                if rc != 0:
                    raise Infra("walk process %d of %s failed:\n%s" % (i, s["name"], open(work.path("walks-%s-%d.log" % (s["name"], i)), errors="replace").read()[-2500:]))
                k = 0
                for line in open(tf):
                    d = json.loads(line)
                    d["spec"], d["run"] = s["name"], i
                    out.write(json.dumps(d) + "\n")
                    k += 1
                    if i == 0 and len(samples) < 4 and d["step"] == 2:
                        samples.append(d)
                counts.append(k)
                n_lines += k
            log("determinism %s: %d processes x %d recorded steps" % (s["name"], len(RUNS), counts[0]))
            if len(set(counts)) != 1:
                log("  (processes recorded different numbers of steps: %s)" % counts)
            per_source.append(dict(source=s["name"], steps_per_process=counts))
            os.remove(edges)
    cfg = work.path("determinism.cfg")
    vlib.write_cfg(cfg, spec="Spec", consts=dict(TraceFile=merged), invariants=["C17_SameHistorySameResult"], postcondition="Consumed")
    r = vlib.run_tlc(work, "Determinism.tla", cfg, work.path("determinism.out"), workers=1, timeout=1500)
    steps = sum(x["steps_per_process"][0] for x in per_source)
    ev = dict(evaluations=n_lines, distinct_nontrivial=steps,
              rule="one evaluation = one recorded step of one process; distinct = (source, walk, step) keys compared across %d independent processes (GOMAXPROCS 1/4/16, fresh map seeds) on complete multistore digest, result class and event digest" % len(RUNS),
              samples=samples, sources=per_source, processes=len(RUNS), states=r["distinct"], transitions=r["generated"],
              traces_validated_against_impl=len(RUNS) * len(per_source),
              explanation="TLA+ supplies the histories (walks over TLC-generated graphs) and the acceptance invariant; the decision is a comparison of independent real executions")
    assumptions = ["block results are compared as complete multistore content digest + event digest per step (IAVL app hash is a function of the content and the per-block write set, which cachekv flushes in key order)",
                   "histories run on branches of a deterministic genesis (fixed key material, fixed times); real FinalizeBlock histories are covered where a specification provides TestBlocks"]
    if r["violated"]:
        l = r["last_l"] or 2
        bad = None
        for k, line in enumerate(open(merged), 1):
            if k == l - 1:
                bad = json.loads(line)
        path = vlib.save_replay(work, "violation", dict(formula=r["violated"], record=bad))
        vlib.write_evidence(work, "exploration", ev, assumptions, 1)
        log("two processes disagree at", json.dumps(bad)[:400])
        print("VIOLATION property=C17 replay=%s" % path, flush=True)
        return 1
    if r["error"] or r["postcondition_failed"] or r["rc"] != 0:
        raise Infra("Determinism.tla evaluation failed: %s\n%s" % (r["error"], r["tail"][-1500:]))
    log("TLC: C17_SameHistorySameResult holds on %d recorded steps of %d processes" % (steps, len(RUNS)))
    vlib.write_evidence(work, "exploration", ev, assumptions, 0)
    return 0


specs.REGISTRY["C17"] = run
specs.MANIFEST["C17"] = dict(category="exploration", ref="5 (C17)",
    technique="TLA+ Determinism.tla acceptance invariant over recordings of the same TLC-generated histories executed by independent OS processes (replay comparison)",
    text="The same histories (seeded walks over the TLC-generated transition graphs of the bridge specifications) are executed on the real application by three independent processes (different GOMAXPROCS, fresh map seeds); after every step the complete multistore content, the result class and the emitted events must be identical; TLC checks the invariant over the merged recordings. Exploration level: determinism is a relation between executions, the specification supplies histories and the acceptance predicate.",
    note="compares store content + events per step, not IAVL root hashes; histories limited to the specifications that provide TestWalks")
