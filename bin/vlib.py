"""Shared machinery of the checks: TLC driving, harness building, graph replay, evaluation of the
specification's property formulas on behaviours recorded from the real code, evidence writing.

Verdict policy (DESIGN.md section 4):
  exit 0  property held on everything explored
  exit 1  + line 'VIOLATION property=<id> replay=<path>' : a property formula of the specification is
          false on a behaviour recorded from the REAL code (TLC evaluated it), or a must-succeed
          operation was refused / block processing failed on the real code
  exit 2  infrastructure trouble (TLC error, model violates its own properties, build failure,
          time-out, vacuity) - never reported as a violation
"""
import json, os, re, shutil, subprocess, sys, time, hashlib

VERIF = os.path.dirname(os.path.dirname(os.path.abspath(__file__)))
SPEC = os.path.join(VERIF, "spec")
HARNESS = os.path.join(VERIF, "harness")
GOENV = dict(GOFLAGS="-mod=mod", GOPROXY="off", GOSUMDB="off", GOTOOLCHAIN="local")
# the keyring library linked into the application probes the D-Bus session bus when a process starts, and where none is
# configured it launches a dbus-daemon that outlives the process: give every child an address that simply fails
os.environ.setdefault("DBUS_SESSION_BUS_ADDRESS", "unix:path=/nonexistent-verif-dbus")


class Infra(Exception):
    pass


# ---- machine-wide throttle: at most NSLOTS heavy processes (TLC workers, replay shards) at a time,
# shared by all checks running concurrently on this machine (advisory file locks).
import fcntl
NSLOTS = int(os.environ.get("VERIF_SLOTS", "20"))
SLOTDIR = os.path.join(VERIF, ".work", "slots")


def acquire_slots(n, block=True):
    """Returns a list of open locked file objects (release by closing), or None if block=False and not available."""
    os.makedirs(SLOTDIR, exist_ok=True)
    n = min(n, NSLOTS)
    held = []
    while True:
        for i in range(NSLOTS):
            if len(held) >= n:
                break
            f = open(os.path.join(SLOTDIR, "slot-%d" % i), "w")
            try:
                fcntl.flock(f, fcntl.LOCK_EX | fcntl.LOCK_NB)
                held.append(f)
            except OSError:
                f.close()
        if len(held) >= n:
            return held
        # could not get all: release and retry (avoids deadlock between concurrent checks)
        for f in held:
            f.close()
        held = []
        if not block:
            return None
        time.sleep(0.5 + (os.getpid() % 10) / 10.0)


def release_slots(held):
    for f in held or []:
        f.close()


def log(*a):
    print(*a, flush=True)


def sweep_stale_work():
    """Removes scratch directories left by runs that were killed (their process is gone) more than an hour ago."""
    root = os.path.join(VERIF, ".work")
    for d in os.listdir(root):
        m = re.match(r"^C\d\d-[a-z]+-(\d+)$", d)
        if not m:
            continue
        full = os.path.join(root, d)
        try:
            os.kill(int(m.group(1)), 0)
            continue  # a live process owns it
        except ProcessLookupError:
            pass
        except PermissionError:
            continue
        try:
            if time.time() - os.path.getmtime(full) > 3600:
                shutil.rmtree(full, ignore_errors=True)
        except OSError:
            pass


class Work:
    def __init__(self, pid, tier, seed):
        self.pid, self.tier, self.seed = pid, tier, seed
        self.dir = os.path.join(VERIF, ".work", "%s-%s-%d" % (pid, tier, os.getpid()))
        shutil.rmtree(self.dir, ignore_errors=True)
        os.makedirs(self.dir)
        sweep_stale_work()
        for f in os.listdir(SPEC):
            if f.endswith(".tla"):
                shutil.copy(os.path.join(SPEC, f), self.dir)
        self.t0 = time.time()
        self.keep = []  # files to keep (replay artefacts)

    def path(self, name):
        return os.path.join(self.dir, name)

    def cleanup(self):
        shutil.rmtree(self.dir, ignore_errors=True)


def tla_value(v):
    if isinstance(v, bool):
        return "TRUE" if v else "FALSE"
    if isinstance(v, int):
        return str(v)
    if isinstance(v, str):
        return json.dumps(v)
    if isinstance(v, (list, tuple, set)):
        return "{" + ", ".join(tla_value(x) for x in v) + "}"
    raise ValueError(v)


def write_cfg(path, *, spec=None, init=None, next_=None, consts=None, overrides=None, invariants=(),
              properties=(), view=None, constraint=None, action_constraint=None, postcondition=None):
    lines = []
    if spec:
        lines.append("SPECIFICATION " + spec)
    else:
        lines += ["INIT " + init, "NEXT " + next_]
    lines.append("CONSTANTS")
    for k, v in (consts or {}).items():
        lines.append("  %s = %s" % (k, tla_value(v)))
    for k, v in (overrides or {}).items():
        lines.append("  %s <- %s" % (k, v))
    if view:
        lines.append("VIEW " + view)
    if constraint:
        lines.append("CONSTRAINT " + constraint)
    if action_constraint:
        lines.append("ACTION_CONSTRAINT " + action_constraint)
    if invariants:
        lines.append("INVARIANTS " + " ".join(invariants))
    if properties:
        lines.append("PROPERTIES " + " ".join(properties))
    if postcondition:
        lines.append("POSTCONDITION " + postcondition)
    lines.append("CHECK_DEADLOCK FALSE")
    with open(path, "w") as f:
        f.write("\n".join(lines) + "\n")


def run_tlc(work, module, cfg, out, workers=16, timeout=1500, extra=()):
    """Runs TLC; returns dict(generated, distinct, depth, violated, error, postcondition_failed, wall)."""
    md = work.path("md-" + os.path.basename(out))
    workers = min(workers, max(1, NSLOTS // 2))
    cmd = ["timeout", str(timeout), "tlc", "-workers", str(workers), "-metadir", md, "-config", cfg] + list(extra) + [module]
    held = acquire_slots(workers)
    t0 = time.time()
    # TLC's own scratch directories (tlc-*) go inside the work directory, which is removed at exit
    jtmp = work.path("jtmp")
    os.makedirs(jtmp, exist_ok=True)
    env = dict(os.environ)
    env["JAVA_TOOL_OPTIONS"] = (env.get("JAVA_TOOL_OPTIONS", "") + " -Djava.io.tmpdir=" + jtmp).strip()
    try:
        with open(out, "w") as f:
            rc = subprocess.call(cmd, cwd=work.dir, stdout=f, stderr=subprocess.STDOUT, env=env)
    finally:
        release_slots(held)
    res = dict(rc=rc, wall=time.time() - t0, generated=0, distinct=0, depth=0, violated=None, error=None,
               postcondition_failed=False, last_l=None)
    tail = []
    with open(out, errors="replace") as f:
        for line in f:
            if line.startswith('<<"EDGE"'):
                continue
            tail.append(line)
            if len(tail) > 4000:
                tail = tail[-2000:]
            m = re.match(r"(\d+) states generated, (\d+) distinct states found", line)
            if m:
                res["generated"], res["distinct"] = int(m.group(1)), int(m.group(2))
            m = re.match(r"The depth of the complete state graph search is (\d+)", line)
            if m:
                res["depth"] = int(m.group(1))
            m = re.match(r"Error: (Action property|Invariant|Temporal property) (\S+) (is|was) violated", line)
            if m and not res["violated"]:
                res["violated"] = m.group(2).rstrip(".")
            if line.startswith("Error: Postcondition"):
                res["postcondition_failed"] = True
            elif line.startswith("Error:") and not res["violated"] and res["error"] is None and \
                    "behavior up to this point" not in line:
                res["error"] = line.strip()
            m = re.match(r"/\\ l = (\d+)", line)
            if m:
                res["last_l"] = int(m.group(1))
    shutil.rmtree(md, ignore_errors=True)
    if rc == 124:
        res["error"] = "timeout after %ds" % timeout
    res["tail"] = "".join(tail[-60:])
    return res


def build(work, pkg):
    """go test -c of one harness package against the repository's current working tree
    (/repo, or $VERIF_REPO for scratch worktrees).  The harness sources are copied into the work
    directory first so that concurrent checks never share go.mod/go.sum."""
    repo = os.environ.get("VERIF_REPO", "/repo")
    hdir = work.path("harness")
    if not os.path.exists(hdir):
        shutil.copytree(HARNESS, hdir, ignore=shutil.ignore_patterns("go.sum"))
        shutil.copy(os.path.join(repo, "go.sum"), os.path.join(hdir, "go.sum"))
        gm = open(os.path.join(hdir, "go.mod")).read()
        gm = gm.replace("github.com/functionx/fx-core/v8 => /repo", "github.com/functionx/fx-core/v8 => " + repo)
        open(os.path.join(hdir, "go.mod"), "w").write(gm)
    out = work.path(pkg + ".test")
    env = dict(os.environ, **GOENV)
    t0 = time.time()
    p = subprocess.run(["go", "test", "-c", "-tags", "verif", "-o", out, "./" + pkg], cwd=hdir, env=env,
                       stdout=subprocess.PIPE, stderr=subprocess.STDOUT, text=True)
    if p.returncode != 0:
        raise Infra("harness build failed:\n" + p.stdout[-4000:])
    log("built %s against %s in %.0fs" % (pkg, repo, time.time() - t0))
    return out


def run_harness(work, binary, test, env, out, timeout=3000):
    e = dict(os.environ, **GOENV)
    e.update({k: str(v) for k, v in env.items()})
    e["VERIF_SEED"] = str(work.seed)
    e["VERIF_TIER"] = work.tier
    # the application creates scratch databases under the temporary directory: keep them inside the work directory
    tmpd = work.path("tmp")
    os.makedirs(tmpd, exist_ok=True)
    e["TMPDIR"] = tmpd
    with open(out, "w") as f:
        return subprocess.Popen(["timeout", str(timeout), binary, "-test.run", "^" + test + "$", "-test.timeout", "0", "-test.v"],
                                cwd=work.dir, env=e, stdout=f, stderr=subprocess.STDOUT)


def replay(work, binary, edges, const, tag, shards=8, rej_sample=0, explore=4, test="TestReplay", extra_env=None):
    """Runs graph replay in `shards` parallel processes; returns (stats list, trace files)."""
    # compile TLC's output once into the compact graph the shards load
    comp = work.path("compile.bin")
    if not os.path.exists(comp):
        hdir = work.path("harness")
        p = subprocess.run(["go", "build", "-o", comp, "./cmd/compile"], cwd=hdir, env=dict(os.environ, **GOENV),
                           stdout=subprocess.PIPE, stderr=subprocess.STDOUT, text=True)
        if p.returncode != 0:
            raise Infra("compile tool build failed:\n" + p.stdout[-2000:])
    compact = edges + ".graph"
    if not os.path.exists(compact):
        p = subprocess.run([comp, edges, compact], stdout=subprocess.PIPE, stderr=subprocess.STDOUT, text=True)
        if p.returncode != 0:
            raise Infra("graph compile failed:\n" + p.stdout[-2000:])
        log(p.stdout.strip())
    edges = compact
    pending = list(range(shards))
    running = {}
    stats, traces = [None] * shards, [None] * shards
    while pending or running:
        # start as many shards as there are free slots
        while pending:
            held = acquire_slots(1, block=not running)
            if held is None:
                break
            i = pending.pop(0)
            env = dict(VERIF_EDGES=edges, VERIF_CONST=json.dumps(const), VERIF_SHARD=i, VERIF_SHARDS=shards,
                       VERIF_REJ_SAMPLE=rej_sample, VERIF_EXPLORE=explore,
                       VERIF_TRACES=work.path("%s-traces-%d.ndjson" % (tag, i)),
                       VERIF_STATS=work.path("%s-stats-%d.json" % (tag, i)))
            env.update(extra_env or {})
            running[i] = (run_harness(work, binary, test, env, work.path("%s-replay-%d.log" % (tag, i))), held)
        done = [i for i, (p, _) in running.items() if p.poll() is not None]
        if not done:
            time.sleep(0.3)
            continue
        for i in done:
            p, held = running.pop(i)
            release_slots(held)
            sp = work.path("%s-stats-%d.json" % (tag, i))
            if p.returncode != 0 or not os.path.exists(sp):
                for q, h in running.values():
                    q.kill()
                    release_slots(h)
                tail = open(work.path("%s-replay-%d.log" % (tag, i)), errors="replace").read()[-3000:]
                raise Infra("replay shard %d failed (rc=%s):\n%s" % (i, p.returncode, tail))
            stats[i] = json.load(open(sp))
            traces[i] = work.path("%s-traces-%d.ndjson" % (tag, i))
    return stats, traces


def first_state(edges_file):
    with open(edges_file, errors="replace") as f:
        for line in f:
            if line.startswith('<<"EDGE", "'):
                body = line.rstrip("\n")[len('<<"EDGE", "'):-3]
                body = re.sub(r'\\(.)', lambda m: m.group(1), body)
                return json.loads(body)["from"]
    raise Infra("no EDGE line in " + edges_file)


def concat_traces(trace_files, init_state, reset_op, out, limit=None):
    """Concatenates recorded behaviours into one ndjson file for TLC; returns list of (first_line, trace)."""
    index = []
    n = 0
    with open(out, "w") as o:
        for tf in trace_files:
            if not os.path.exists(tf):
                continue
            for line in open(tf):
                d = json.loads(line)
                if limit and len(index) >= limit:
                    break
                st0 = d.get("init", init_state)
                o.write(json.dumps({"op": reset_op, "st": st0}) + "\n")
                n += 1
                index.append((n, d))
                for step in d["trace"]:
                    o.write(json.dumps(step) + "\n")
                    n += 1
    return index, n


def trace_of_line(index, l):
    best = None
    for first, d in index:
        if first <= l:
            best = (first, d)
    return best


def write_evidence(work, level, coverage, assumptions, violations):
    ev = dict(property_id=work.pid, tier=work.tier if work.tier in ("quick", "thorough") else "quick", seed=work.seed, level=level, coverage=coverage,
              assumptions=assumptions, wall_s=round(time.time() - work.t0, 1), violations=violations)
    os.makedirs(os.path.join(VERIF, "evidence"), exist_ok=True)
    with open(os.path.join(VERIF, "evidence", work.pid + ".json"), "w") as f:
        json.dump(ev, f, indent=1, sort_keys=True)
        f.write("\n")


def save_replay(work, name, doc):
    d = os.path.join(VERIF, "replays")
    os.makedirs(d, exist_ok=True)
    p = os.path.join(d, "%s-%s.json" % (work.pid, name))
    with open(p, "w") as f:
        json.dump(doc, f, indent=1)
    return p


def known_findings():
    p = os.path.join(VERIF, "known_findings.json")
    if not os.path.exists(p):
        return []
    return json.load(open(p)).get("findings", [])


# ---- replay cache: several properties share one specification (C01/C02, C04/C05/C06); the generation +
# replay of a configuration is identical for them as long as /repo's working tree, the specification,
# the harness and the runner are byte-identical.  Keyed by a content hash of all of these; entries
# expire after 3 hours.  VERIF_NOCACHE=1 disables it.
def tree_state(repo):
    h = hashlib.sha256()
    def run(*a):
        return subprocess.run(list(a), cwd=repo, stdout=subprocess.PIPE, stderr=subprocess.DEVNULL).stdout
    h.update(run("git", "rev-parse", "HEAD"))
    h.update(run("git", "diff", "HEAD"))
    for f in run("git", "ls-files", "--others", "--exclude-standard").decode().split("\n"):
        if f and os.path.isfile(os.path.join(repo, f)):
            h.update(f.encode())
            h.update(open(os.path.join(repo, f), "rb").read())
    return h.hexdigest()


def dir_hash(d, exts):
    h = hashlib.sha256()
    for root, dirs, files in sorted(os.walk(d)):
        dirs.sort()
        for f in sorted(files):
            if f.endswith(exts) and f != "go.sum":
                h.update(f.encode())
                h.update(open(os.path.join(root, f), "rb").read())
    return h.hexdigest()


def cache_key(work, *parts):
    repo = os.environ.get("VERIF_REPO", "/repo")
    h = hashlib.sha256()
    for x in (tree_state(repo), dir_hash(SPEC, (".tla",)), dir_hash(HARNESS, (".go", ".mod")), dir_hash(os.path.join(VERIF, "bin"), (".py",)),
              work.tier, str(work.seed), json.dumps(parts, sort_keys=True)):
        h.update(x.encode())
    return h.hexdigest()[:32]


def cache_get(key):
    if os.environ.get("VERIF_NOCACHE"):
        return None
    d = os.path.join(VERIF, ".work", "cache", key)
    meta = os.path.join(d, "meta.json")
    if not os.path.exists(meta):
        return None
    m = json.load(open(meta))
    if time.time() - m["at"] > 3 * 3600:
        shutil.rmtree(d, ignore_errors=True)
        return None
    return d, m


def cache_put(key, meta, files):
    if os.environ.get("VERIF_NOCACHE"):
        return
    croot = os.path.join(VERIF, ".work", "cache")
    if os.path.isdir(croot):  # prune expired entries
        for e in os.listdir(croot):
            m = os.path.join(croot, e, "meta.json")
            try:
                if not os.path.exists(m) or time.time() - json.load(open(m))["at"] > 3 * 3600:
                    if time.time() - os.path.getmtime(os.path.join(croot, e)) > 600:
                        shutil.rmtree(os.path.join(croot, e), ignore_errors=True)
            except Exception:
                pass
    d = os.path.join(croot, key)
    tmp = d + ".tmp%d" % os.getpid()
    shutil.rmtree(tmp, ignore_errors=True)
    os.makedirs(tmp)
    names = []
    for f in files:
        if os.path.exists(f):
            shutil.copy(f, os.path.join(tmp, os.path.basename(f)))
            names.append(os.path.basename(f))
    meta = dict(meta, at=time.time(), files=names)
    json.dump(meta, open(os.path.join(tmp, "meta.json"), "w"))
    shutil.rmtree(d, ignore_errors=True)
    os.rename(tmp, d)
