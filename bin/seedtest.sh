#!/bin/bash
# usage: bin/seedtest.sh <worktree> <patch.diff> <tier> <PID> [PID...]
# applies a seeded change in a scratch worktree, runs the given checks against it (VERIF_REPO), reverts.
WT=$1; PATCH=$2; TIER=$3; shift 3
git -C $WT checkout -q -- . && git -C $WT apply $PATCH || { echo "patch does not apply"; exit 2; }
for pid in "$@"; do
  out=/tmp/seedtest-$(basename $WT)-$(basename $(dirname $PATCH))-$pid.log
  VERIF_REPO=$WT timeout 3000 python3 /verif/bin/check.py $pid --tier $TIER > $out 2>&1
  echo "$pid rc=$? $(grep -m1 VIOLATION $out) $(grep -m1 'formula .* is false' $out | cut -c1-120)"
done
git -C $WT checkout -q -- .
