"""Registry: property id -> check function."""
import json, os, glob
import vlib
from vlib import Infra, log

REGISTRY = {}


def graph_property(work, args, *, pid, module, mcmodule, pkg, formulas, mc_cfgs, gen_cfgs, reset_op,
                   level_note, design_ref, assumptions, recorder=None, extra_prop_invariants=()):
    """Generic check for a property decided on a graph-replayed specification.

    formulas: dict(invariants=[...], properties=[...], p_properties=[...]) - the property's formulas in
              <module>.tla and their trace-evaluation twins (P_…) in <module>Prop.tla
    mc_cfgs / gen_cfgs: lists of dict(name, consts, overrides, harness=…, shards, rej_sample, workers)
    """
    tier = work.tier
    ev = dict(states=0, transitions=0, traces_validated_against_impl=0, samples=[], mc_runs=[], gen_runs=[],
              replay=[], formulas=formulas["invariants"] + formulas["properties"])
    # ---- 1. model checking: the design satisfies the property's formulas (and only those are listed)
    for c in [c for c in mc_cfgs if tier in c["tiers"]]:
        cfg = work.path("mc-%s.cfg" % c["name"])
        vlib.write_cfg(cfg, spec="Spec", consts=c["consts"], overrides=c.get("overrides"), view="View",
                       action_constraint="Bounded", invariants=formulas["invariants"], properties=formulas["properties"])
        r = vlib.run_tlc(work, mcmodule + ".tla", cfg, work.path("mc-%s.out" % c["name"]), workers=16, timeout=c.get("timeout", 1500))
        log("TLC model check %s: %d generated, %d distinct, depth %d, %.0fs" % (c["name"], r["generated"], r["distinct"], r["depth"], r["wall"]))
        if r["violated"] or r["error"] or r["rc"] != 0:
            raise Infra("the specification itself violates %s in config %s (model error, not a verdict about the code):\n%s"
                        % (r["violated"] or r["error"], c["name"], r["tail"][-1500:]))
        ev["states"] += r["distinct"]
        ev["transitions"] += r["generated"]
        ev["mc_runs"].append(dict(cfg=c["name"], consts=c["consts"], overrides=c.get("overrides"), distinct=r["distinct"],
                                  generated=r["generated"], depth=r["depth"], wall_s=round(r["wall"], 1)))
    # ---- 2. build the harness against /repo's working tree
    binary = vlib.build(work, pkg)
    # ---- 3. generation + replay
    all_traces, init_by_cfg, deviations = [], {}, 0
    for c in [c for c in gen_cfgs if tier in c["tiers"]]:
        cfg = work.path("gen-%s.cfg" % c["name"])
        vlib.write_cfg(cfg, init="Init", next_="Next", consts=c["consts"], overrides=c.get("overrides"), view="View",
                       action_constraint="EdgeDump")
        edges = work.path("gen-%s.out" % c["name"])
        r = vlib.run_tlc(work, mcmodule + ".tla", cfg, edges, workers=1, timeout=c.get("timeout", 1500))
        if r["error"] or r["rc"] != 0:
            raise Infra("generation run %s failed: %s\n%s" % (c["name"], r["error"], r["tail"][-1500:]))
        log("TLC generation %s: %d distinct states, %.0fs" % (c["name"], r["distinct"], r["wall"]))
        for h in c["harness"]:
            tag = "%s-%s" % (c["name"], h.get("chain", "x"))
            stats, traces = vlib.replay(work, binary, edges, h, tag, shards=c.get("shards", 8),
                                        rej_sample=c.get("rej_sample", 0), explore=c.get("explore", 4))
            tot = dict(edges=sum(s["edges"] for s in stats), ok=sum(s["ok"] for s in stats), rej=sum(s["rej"] for s in stats),
                       deviations=sum(s["deviations"] for s in stats), states=stats[0]["states"],
                       graph_ok_edges=stats[0]["graph_ok_edges"], alphabet=stats[0]["alphabet"], depth=max(s["depth"] for s in stats),
                       frontier=stats[0]["frontier"], by_op=stats[0]["by_op"])
            log("replay %s: %d abstract states, %d real transitions executed (%d ok / %d rejected), %d deviations"
                % (tag, tot["states"], tot["edges"], tot["ok"], tot["rej"], tot["deviations"]))
            for s in stats:
                if s.get("first_deviation"):
                    log("  deviation:", s["first_deviation"][:600])
                    break
            deviations += tot["deviations"]
            ev["replay"].append(dict(cfg=c["name"], harness=h, **tot))
            for s in stats:
                for smp in s.get("samples") or []:
                    if len(ev["samples"]) < 4:
                        ev["samples"].append(smp)
            init = vlib.first_state(edges)
            for tf in traces:
                all_traces.append((tf, init, c))
            ev["gen_runs"].append(dict(cfg=c["name"], distinct=r["distinct"], generated=r["generated"]))
            # vacuity: every operation kind must have been accepted at least once on the real code
            names = set(x.split(" ")[0] for x in tot["by_op"])
            for line in tot["by_op"]:
                nm, okc = line.split(" ")[0], int(line.split("ok=")[1].split(" ")[0])
                if okc == 0 and deviations == 0 and tier != "dev" and nm not in c.get("may_never_succeed", ()):
                    raise Infra("vacuous: operation %s never succeeded on the real code in %s" % (nm, tag))
        os.remove(edges)
    # ---- 4. optional recorder (randomized driver beyond the model-checking bounds) + strict trace validation
    rec_info = None
    if recorder and tier in recorder["tiers"]:
        rec_info = recorder["run"](work, binary)
        for tf, init, c in rec_info["traces"]:
            all_traces.append((tf, init, c))
    # ---- 5. TLC evaluates the property's formulas on every recorded real behaviour
    violation = None
    n_traces = 0
    groups = {}
    for tf, init, c in all_traces:
        groups.setdefault(c["name"], (c, init, []))[2].append(tf)
    for name, (c, init, tfs) in groups.items():
        nd = work.path("prop-%s.ndjson" % name)
        index, nlines = vlib.concat_traces(tfs, init, reset_op, nd)
        if not index:
            continue
        n_traces += len(index)
        cfg = work.path("prop-%s.cfg" % name)
        consts = dict(c.get("prop_consts", c["consts"]))
        consts["TraceFile"] = nd
        vlib.write_cfg(cfg, spec="PSpec", consts=consts, overrides=c.get("overrides"),
                       invariants=formulas["invariants"] + list(extra_prop_invariants), properties=formulas["p_properties"],
                       postcondition="Consumed")
        r = vlib.run_tlc(work, module + "Prop.tla", cfg, work.path("prop-%s.out" % name), workers=1, timeout=1500)
        log("TLC evaluated %s on %d real behaviours (%d steps) of %s: %s" % (", ".join(formulas["invariants"] + formulas["p_properties"]),
            len(index), nlines, name, "VIOLATED " + r["violated"] if r["violated"] else "hold"))
        if r["violated"]:
            l = r["last_l"] or 1
            first, doc = vlib.trace_of_line(index, l - 1)
            steps = doc["trace"][: max(1, l - 1 - first)]
            violation = dict(formula=r["violated"], cfg=name, harness=c["harness"][0], init=init, steps=steps, why=doc.get("why"))
            break
        if r["error"] or r["postcondition_failed"] or r["rc"] != 0:
            raise Infra("property evaluation on real traces failed (%s): %s\n%s" % (name, r["error"], r["tail"][-1500:]))
    ev["traces_validated_against_impl"] = n_traces
    ev["real_transitions_replayed"] = sum(x["edges"] for x in ev["replay"])
    ev["deviations_from_spec"] = deviations
    if rec_info:
        ev["recorder"] = rec_info["summary"]
    ev["exhaustive"] = all(c.get("rej_sample", 0) == 0 for c in gen_cfgs if tier in c["tiers"])
    ev["rule"] = ("every transition of the TLC-generated graph (accepted operations; rejected ones %s) is executed on a branch of the "
                  "real multistore and the projected real state compared with the specification's; TLC then evaluates the property's "
                  "formulas on the recorded real behaviours" % ("all" if ev["exhaustive"] else "sampled per state in this tier"))
    if violation:
        path = vlib.save_replay(work, "violation", violation)
        vlib.write_evidence(work, "model_checking", ev, assumptions, 1)
        log("formula %s is false on a behaviour recorded from the real code (%d steps)" % (violation["formula"], len(violation["steps"])))
        print("VIOLATION property=%s replay=%s" % (pid, path), flush=True)
        return 1
    if deviations:
        log("NOTE: %d transitions of the real code deviate from the specification, but none of %s's formulas is false on "
            "the recorded real behaviours; not a violation of this property." % (deviations, pid))
    vlib.write_evidence(work, "model_checking", ev, assumptions, 0)
    return 0


# =====================================================================================================
# Attest.tla : C01, C02
# =====================================================================================================
ATTEST_RESET = dict(name="Reset", o="none", b="none", s="none", n=0, v="none", set=[], res="ok")

ATTEST_FORMULAS = {
    "C01": dict(invariants=["C01_OneObservedPerNonce", "C01_ObservedInOrder", "C01_NoDoubleVote", "C01_EffectsAtMostOnce",
                            "C01_EffectsOnlyWhenObserved"],
                properties=["C01_StepByOne", "C01_VoteContiguous", "C01_VotesOnlyByClaim", "C01_ObservedStable",
                            "C01_EffectsOnlyByExecute"],
                p_properties=["P_C01_StepByOne", "P_C01_VoteContiguous", "P_C01_VotesOnlyByClaim", "P_C01_ObservedStable",
                              "P_C01_EffectsOnlyByExecute"]),
    "C02": dict(invariants=["C02_TotalPowerCoversOnline", "C02_NoOracleTwiceInTally"],
                properties=["C02_QuorumJustified", "C02_VoterIsOnlineBridgerAndSigner"],
                p_properties=["P_C02_QuorumJustified", "P_C02_VoterIsOnlineBridgerAndSigner"]),
}


def attest_consts(oracles, bridgers, maxnonce, mops, bonds):
    return dict(Oracle=oracles, Bridger=bridgers, Variant=["A", "B"], MaxNonce=maxnonce, MaxMops=mops, MaxBonds=bonds,
                Forger=bridgers[-1])


def attest_harness(chain, oracles, bridgers, maxnonce, stake):
    return dict(chain=chain, Oracle=oracles, Bridger=bridgers, Variant=["A", "B"], MaxNonce=maxnonce, Stake=stake)


O2, O3, B3, B4 = ["o1", "o2"], ["o1", "o2", "o3"], ["b1", "b2", "b3"], ["b1", "b2", "b3", "b4"]
STAKES = {"StakeEdge2": {"o1": 65, "o2": 35}, "StakeEdge3": {"o1": 34, "o2": 33, "o3": 33}, "StakeEq": {"o1": 1, "o2": 1, "o3": 1}}

ATTEST_MC = [
    dict(name="mc2", tiers=["quick", "thorough"], consts=attest_consts(O2, B3, 2, 2, 3), overrides={"Stake": "StakeEdge2"}),
    dict(name="mc3", tiers=["thorough"], consts=attest_consts(O3, B4, 2, 2, 4), overrides={"Stake": "StakeEdge3"}, timeout=2400),
]
ATTEST_GEN = [
    dict(name="gendev", tiers=["dev"], consts=attest_consts(O2, B3, 2, 1, 3), overrides={"Stake": "StakeEdge2"},
         harness=[attest_harness("eth", O2, B3, 2, STAKES["StakeEdge2"])], shards=14, rej_sample=2),
    dict(name="gen2", tiers=["quick"], consts=attest_consts(O2, B3, 2, 2, 3), overrides={"Stake": "StakeEdge2"},
         harness=[attest_harness("eth", O2, B3, 2, STAKES["StakeEdge2"])], shards=14, rej_sample=2),
    dict(name="gen2full", tiers=["thorough"], consts=attest_consts(O2, B3, 2, 2, 3), overrides={"Stake": "StakeEdge2"},
         harness=[attest_harness("eth", O2, B3, 2, STAKES["StakeEdge2"]), attest_harness("tron", O2, B3, 2, STAKES["StakeEdge2"])],
         shards=16, rej_sample=0),
]


def attest(pid):
    def run(work, args):
        return graph_property(
            work, args, pid=pid, module="Attest", mcmodule="AttestMC", pkg="attest", formulas=ATTEST_FORMULAS[pid],
            mc_cfgs=ATTEST_MC, gen_cfgs=ATTEST_GEN, reset_op=ATTEST_RESET,
            level_note="", design_ref="5/C01-C02",
            assumptions=[
                "end-block slashing of an oracle is applied at keeper level (SlashOracle+SetLastTotalPower) in this spec; its cause is EndBlock.tla's subject",
                "MsgEditBridger is driven through the message server directly (its ValidateBasic cannot pass on this tree)",
                "claims are MsgSendToFxClaim deposits of the FX bridge token; other claim types are covered by Outgoing/ClaimIdentity specs",
                "the abstraction function reads the crosschain store prefixes 0x12 0x13 0x14 0x17 0x23 0x24 0x38 0x39 0x54 raw",
            ])
    return run


REGISTRY["C01"] = attest("C01")
REGISTRY["C02"] = attest("C02")
