"""Registry: property id -> check function.  Every bin/spec_*.py module registers its properties:
    specs.REGISTRY["Cxx"] = function(work, args) -> exit code
    specs.MANIFEST["Cxx"] = dict(category=, technique=, text=, note=, ref=)   (collected by gen_manifest.py)
"""
import json, os, glob, importlib, time
import vlib
from vlib import Infra, log

REGISTRY = {}
MANIFEST = {}


def graph_property(work, args, *, pid, module, mcmodule, pkg, formulas, mc_cfgs, gen_cfgs, reset_op,
                   level_note, design_ref, assumptions, recorder=None, extra_prop_invariants=(), never_ok=(), write=True, test="TestReplay", test_path="TestPath"):
    """Generic check for a property decided on a graph-replayed specification.

    formulas: dict(invariants=[...], properties=[...], p_properties=[...]) - the property's formulas in
              <module>.tla and their trace-evaluation twins (P_…) in <module>Prop.tla
    mc_cfgs / gen_cfgs: lists of dict(name, consts, overrides, harness=…, shards, rej_sample, workers)
    """
    tier = work.tier
    if getattr(args, "replay", None):
        return replay_path(work, args.replay, pid=pid, module=module, pkg=pkg, formulas=formulas, reset_op=reset_op,
                           extra_prop_invariants=extra_prop_invariants, test_path=test_path)
    ev = dict(states=0, transitions=0, traces_validated_against_impl=0, samples=[], mc_runs=[], gen_runs=[],
              replay=[], formulas=formulas["invariants"] + formulas["properties"])
    # ---- 1. model checking: the design satisfies the property's formulas (and only those are listed)
    for c in [c for c in mc_cfgs if tier in c["tiers"]]:
        cfg = work.path("mc-%s.cfg" % c["name"])
        vlib.write_cfg(cfg, spec="Spec", consts=c["consts"], overrides=c.get("overrides"), view="View",
                       action_constraint="Bounded", invariants=formulas["invariants"], properties=formulas["properties"])
        r = vlib.run_tlc(work, mcmodule + ".tla", cfg, work.path("mc-%s.out" % c["name"]), workers=16, timeout=c.get("timeout", 1500))
        log("TLC model check %s: %d generated, %d distinct, depth %d, %.0fs" % (c["name"], r["generated"], r["distinct"], r["depth"], r["wall"]))
        if r["violated"] or r["error"] or r["rc"] != 0:
            raise Infra("the specification itself violates %s in config %s (model error, not a verdict about the code):\n%s"
                        % (r["violated"] or r["error"], c["name"], r["tail"][-1500:]))
        ev["states"] += r["distinct"]
        ev["transitions"] += r["generated"]
        ev["mc_runs"].append(dict(cfg=c["name"], consts=c["consts"], overrides=c.get("overrides"), distinct=r["distinct"],
                                  generated=r["generated"], depth=r["depth"], wall_s=round(r["wall"], 1)))
    # ---- 2. build the harness against /repo's working tree
    _bin = []

    def get_binary():
        if not _bin:
            _bin.append(vlib.build(work, pkg))
        return _bin[0]
    # ---- 3. generation + replay
    all_traces, init_by_cfg, deviations = [], {}, 0
    ok_by_op = {}
    for c in [c for c in gen_cfgs if tier in c["tiers"]]:
        key = vlib.cache_key(work, module, mcmodule, pkg, c["name"], c["consts"], c.get("overrides"), c["harness"], c.get("shards", 8),
                             c.get("rej_sample", 0), c.get("explore", 4))
        hit = vlib.cache_get(key)
        if hit:
            cdir, meta = hit
            log("generation+replay of %s reused from cache (same /repo tree, spec, harness; %d s old)" % (c["name"], time.time() - meta["at"]))
            per_h = meta["per_harness"]
            gen_r = meta["gen"]
        else:
            cfg = work.path("gen-%s.cfg" % c["name"])
            vlib.write_cfg(cfg, init="Init", next_="Next", consts=c["consts"], overrides=c.get("overrides"), view="View",
                           action_constraint="EdgeDump")
            edges = work.path("gen-%s.out" % c["name"])
            r = vlib.run_tlc(work, mcmodule + ".tla", cfg, edges, workers=1, timeout=c.get("timeout", 1500))
            if r["error"] or r["rc"] != 0:
                raise Infra("generation run %s failed: %s\n%s" % (c["name"], r["error"], r["tail"][-1500:]))
            log("TLC generation %s: %d distinct states, %.0fs" % (c["name"], r["distinct"], r["wall"]))
            gen_r = dict(distinct=r["distinct"], generated=r["generated"])
            init = vlib.first_state(edges)
            per_h, files = [], []
            for h in c["harness"]:
                tag = "%s-%s" % (c["name"], h.get("chain", "x"))
                stats, traces = vlib.replay(work, get_binary(), edges, h, tag, shards=c.get("shards", 8),
                                            rej_sample=c.get("rej_sample", 0), explore=c.get("explore", 4), test=test)
                per_h.append(dict(harness=h, tag=tag, stats=stats, traces=[os.path.basename(t) for t in traces], init=init))
                files += traces
            vlib.cache_put(key, dict(per_harness=per_h, gen=gen_r), files)
            cdir = work.dir
            for f in (edges, edges + ".graph"):
                if os.path.exists(f):
                    os.remove(f)
        for ph in per_h:
            h, tag, stats, init = ph["harness"], ph["tag"], ph["stats"], ph["init"]
            traces = [os.path.join(cdir, t) for t in ph["traces"]]
            tot = dict(edges=sum(s["edges"] for s in stats), ok=sum(s["ok"] for s in stats), rej=sum(s["rej"] for s in stats),
                       deviations=sum(s["deviations"] for s in stats), states=stats[0]["states"],
                       graph_ok_edges=stats[0]["graph_ok_edges"], alphabet=stats[0]["alphabet"], depth=max(s["depth"] for s in stats),
                       frontier=stats[0]["frontier"], by_op=stats[0]["by_op"])
            # by_op of shard 0 only lists what shard 0 executed: merge all shards
            merged = {}
            for s_ in stats:
                for line in s_["by_op"]:
                    nm = line.split(" ")[0]
                    okc, rejc = int(line.split("ok=")[1].split(" ")[0]), int(line.split("rej=")[1])
                    a_, b_ = merged.get(nm, (0, 0))
                    merged[nm] = (a_ + okc, b_ + rejc)
            tot["by_op"] = ["%s ok=%d rej=%d" % (k, v[0], v[1]) for k, v in sorted(merged.items())]
            log("replay %s: %d abstract states, %d real transitions executed (%d ok / %d rejected), %d deviations"
                % (tag, tot["states"], tot["edges"], tot["ok"], tot["rej"], tot["deviations"]))
            for s_ in stats:
                if s_.get("first_deviation"):
                    log("  deviation:", s_["first_deviation"][:600])
                    break
            deviations += tot["deviations"]
            ev["replay"].append(dict(cfg=c["name"], harness=h, cached=bool(hit), **tot))
            for s_ in stats:
                for smp in s_.get("samples") or []:
                    if len(ev["samples"]) < 4:
                        ev["samples"].append(smp)
            for tf in traces:
                all_traces.append((tf, init, c, h))
            ev["gen_runs"].append(dict(cfg=c["name"], **gen_r))
            for line in tot["by_op"]:
                nm, okc = line.split(" ")[0], int(line.split("ok=")[1].split(" ")[0])
                ok_by_op[nm] = ok_by_op.get(nm, 0) + okc
    # vacuity: every operation kind must have been accepted at least once on the real code (over all configs of this run)
    ev["accepted_by_operation"] = ok_by_op
    never = set(never_ok)
    for c in gen_cfgs:
        if tier in c["tiers"]:
            never |= set(c.get("may_never_succeed", ()))
    for nm, okc in ok_by_op.items():
        if okc == 0 and deviations == 0 and tier != "dev" and nm not in never:
            raise Infra("vacuous: operation %s never succeeded on the real code in this run" % nm)
    # ---- 4. optional recorder (randomized driver beyond the model-checking bounds) + strict trace validation
    rec_info = None
    if recorder and tier in recorder["tiers"]:
        rec_info = recorder["run"](work, get_binary())
        deviations += rec_info.get("deviations", 0)
        for tf, init, c, h in rec_info["traces"]:
            all_traces.append((tf, init, c, h))
    # ---- 5. TLC evaluates the property's formulas on every recorded real behaviour
    violation = None
    n_traces = 0
    groups = {}
    for tf, init, c, h in all_traces:
        groups.setdefault(c["name"] + "-" + str(h.get("chain", "x")), (c, init, [], h))[2].append(tf)
    for name, (c, init, tfs, h) in groups.items():
        nd = work.path("prop-%s.ndjson" % name)
        index, nlines = vlib.concat_traces(tfs, init, reset_op, nd)
        if not index:
            continue
        n_traces += len(index)
        cfg = work.path("prop-%s.cfg" % name)
        consts = dict(c.get("prop_consts", c["consts"]))
        consts["TraceFile"] = nd
        vlib.write_cfg(cfg, spec="PSpec", consts=consts, overrides=c.get("overrides"),
                       invariants=formulas["invariants"] + list(extra_prop_invariants), properties=formulas["p_properties"],
                       postcondition="Consumed")
        r = vlib.run_tlc(work, module + "Prop.tla", cfg, work.path("prop-%s.out" % name), workers=1, timeout=1500)
        log("TLC evaluated %s on %d real behaviours (%d steps) of %s: %s" % (", ".join(formulas["invariants"] + formulas["p_properties"]),
            len(index), nlines, name, "VIOLATED " + r["violated"] if r["violated"] else "hold"))
        if r["violated"]:
            l = r["last_l"] or 1
            first, doc = vlib.trace_of_line(index, l - 1)
            steps = doc["trace"][: max(1, l - 1 - first)]
            violation = dict(formula=r["violated"], cfg=name, harness=h, init=init, steps=steps, why=doc.get("why"),
                             consts=c.get("prop_consts", c["consts"]), overrides=c.get("overrides"), module=module)
            break
        if r["error"] or r["postcondition_failed"] or r["rc"] != 0:
            raise Infra("property evaluation on real traces failed (%s): %s\n%s" % (name, r["error"], r["tail"][-1500:]))
    ev["traces_validated_against_impl"] = n_traces
    ev["real_transitions_replayed"] = sum(x["edges"] for x in ev["replay"])
    ev["deviations_from_spec"] = deviations
    if rec_info:
        ev["recorder"] = rec_info["summary"]
    ev["exhaustive"] = all(c.get("rej_sample", 0) == 0 for c in gen_cfgs if tier in c["tiers"])
    ev["rule"] = ("every transition of the TLC-generated graph (accepted operations; rejected ones %s) is executed on a branch of the "
                  "real multistore and the projected real state compared with the specification's; TLC then evaluates the property's "
                  "formulas on the recorded real behaviours" % ("all" if ev["exhaustive"] else "sampled per state in this tier"))
    ev["assumptions_part"] = list(assumptions)
    if not write:
        return (1 if violation else 0), ev, violation, deviations
    return finish(work, pid, ev, assumptions, violation, deviations)


def finish(work, pid, ev, assumptions, violation, deviations):
    if violation:
        path = vlib.save_replay(work, "violation", violation)
        vlib.write_evidence(work, "model_checking", ev, assumptions, 1)
        log("formula %s is false on a behaviour recorded from the real code (%d steps)" % (violation["formula"], len(violation["steps"])))
        print("VIOLATION property=%s replay=%s" % (pid, path), flush=True)
        return 1
    if deviations:
        log("NOTE: %d transitions of the real code deviate from the specification, but none of %s's formulas is false on "
            "the recorded real behaviours; not a violation of this property." % (deviations, pid))
    vlib.write_evidence(work, "model_checking", ev, assumptions, 0)
    return 0


def merge_evidence(a, b):
    out = dict(a)
    for k in ("states", "transitions", "traces_validated_against_impl", "real_transitions_replayed", "deviations_from_spec"):
        out[k] = a.get(k, 0) + b.get(k, 0)
    for k in ("samples", "mc_runs", "gen_runs", "replay", "formulas"):
        out[k] = list(a.get(k, [])) + list(b.get(k, []))
    out["samples"] = out["samples"][:6]
    out["exhaustive"] = bool(a.get("exhaustive")) and bool(b.get("exhaustive"))
    acc = dict(a.get("accepted_by_operation", {}))
    acc.update({"part2." + k: v for k, v in b.get("accepted_by_operation", {}).items()})
    out["accepted_by_operation"] = acc
    return out


def make_recorder(*, module, mcmodule, pkg, name, consts, overrides, harness, reset_op, tiers, walks=6, walklen=60, procs=8, test="TestRecord"):
    """Recorder: seeded random drivers on the real code with constants beyond the model-checking bounds;
    every recorded behaviour is validated by TLC against the specification's own next-state relation
    (<module>Trace.tla, strict) and handed to the property evaluation."""
    def run(work, binary):
        cfg = work.path("alpha-%s.cfg" % name)
        vlib.write_cfg(cfg, init="Init", next_="Next", consts=consts, overrides=overrides, view="View", action_constraint="AlphabetDump")
        edges = work.path("alpha-%s.out" % name)
        r = vlib.run_tlc(work, mcmodule + ".tla", cfg, edges, workers=1, timeout=600)
        if r["error"] or r["rc"] != 0:
            raise Infra("alphabet generation failed: %s\n%s" % (r["error"], r["tail"][-1000:]))
        init = vlib.first_state(edges)
        n = procs if work.tier == "thorough" else max(2, procs // 2)
        ps = []
        for i in range(n):
            tf = work.path("rec-%s-%d.ndjson" % (name, i))
            env = dict(VERIF_EDGES=edges, VERIF_CONST=json.dumps(harness), VERIF_TRACES=tf, VERIF_WALKS=walks, VERIF_WALKLEN=walklen, VERIF_SHARD=i)
            held = vlib.acquire_slots(1)
            ps.append((tf, vlib.run_harness(work, binary, test, env, work.path("rec-%s-%d.log" % (name, i))), held, i))
        tfs = []
        for tf, p, held, i in ps:
            rc = p.wait()
            vlib.release_slots(held)
            if rc != 0:
                raise Infra("recorder process failed:\n" + open(work.path("rec-%s-%d.log" % (name, i)), errors="replace").read()[-2500:])
            tfs.append(tf)
        # strict validation
        nd = work.path("strict-%s.ndjson" % name)
        index, nlines = vlib.concat_traces(tfs, init, reset_op, nd)
        sc = dict(consts)
        sc["TraceFile"] = nd
        scfg = work.path("strict-%s.cfg" % name)
        vlib.write_cfg(scfg, spec="TSpec", consts=sc, overrides=overrides, postcondition="Consumed")
        r = vlib.run_tlc(work, module + "Trace.tla", scfg, work.path("strict-%s.out" % name), workers=1, timeout=1500)
        accepted = not (r["postcondition_failed"] or r["error"] or r["rc"] != 0)
        if r["error"] and not r["postcondition_failed"]:
            log("strict trace validation error:", r["error"])
        log("recorder %s: %d behaviours (%d steps) recorded from the real code with larger constants; strict validation against %sTrace.tla: %s"
            % (name, len(index), nlines, module, "every behaviour is a behaviour of the specification" if accepted
               else "REJECTED after %d states (the real code took a step the specification does not allow)" % r["distinct"]))
        c = dict(name="rec-" + name, consts=consts, overrides=overrides, harness=[harness])
        return dict(traces=[(tf, init, c, harness) for tf in tfs],
                    summary=dict(behaviours=len(index), steps=nlines, strict_accepted=accepted, consts=consts), deviations=0 if accepted else 1)
    return dict(tiers=tiers, run=run)


def replay_path(work, path, *, pid, module, pkg, formulas, reset_op, extra_prop_invariants=(), test_path="TestPath"):
    """--replay: re-executes a saved violation path on the real code and lets TLC evaluate the formulas again."""
    doc = json.load(open(path))
    binary = vlib.build(work, pkg)
    pf = work.path("path.json")
    json.dump(dict(steps=doc["steps"]), open(pf, "w"))
    tf = work.path("path-traces.ndjson")
    p = vlib.run_harness(work, binary, test_path, dict(VERIF_PATH=pf, VERIF_TRACES=tf, VERIF_CONST=json.dumps(doc["harness"])), work.path("path.log"))
    if p.wait() != 0:
        raise Infra("replay harness failed:\n" + open(work.path("path.log")).read()[-3000:])
    log(open(work.path("path.log")).read()[-3000:])
    nd = work.path("path.ndjson")
    index, n = vlib.concat_traces([tf], doc["init"], reset_op, nd)
    consts = dict(doc["consts"])
    consts["TraceFile"] = nd
    cfg = work.path("path.cfg")
    vlib.write_cfg(cfg, spec="PSpec", consts=consts, overrides=doc.get("overrides"),
                   invariants=formulas["invariants"] + list(extra_prop_invariants), properties=formulas["p_properties"], postcondition="Consumed")
    r = vlib.run_tlc(work, module + "Prop.tla", cfg, work.path("path.out"), workers=1)
    if r["violated"]:
        log("formula %s is false on the replayed real behaviour" % r["violated"])
        print("VIOLATION property=%s replay=%s" % (pid, path), flush=True)
        return 1
    if r["error"] or r["postcondition_failed"] or r["rc"] != 0:
        raise Infra("evaluation failed: %s\n%s" % (r["error"], r["tail"][-1500:]))
    log("all formulas hold on the replayed real behaviour")
    return 0


def load_all():
    here = os.path.dirname(os.path.abspath(__file__))
    for f in sorted(glob.glob(os.path.join(here, "spec_*.py"))):
        importlib.import_module(os.path.basename(f)[:-3])
