"""Confirm.tla + AbiCheckpoint.tla : C12 (a confirmation is stored only with the oracle's signature over the exact object)

Two parts, one verdict / evidence file:
  part 1  Confirm.tla: state machine of the three confirm handlers and the MsgConfirm wrapper, standard pipeline
          (TLC model check -> TLC edge generation -> graph replay on the real keeper -> TLC evaluates the C12
          formulas on the recorded real behaviours).  Which abstract signature classes verify is computed first by
          the harness's independent verifier (TestClasses) and becomes the model's constant Verifying.
  part 2  AbiCheckpoint.tla: TLC evaluates a from-scratch definition of Solidity's abi.encode and of the three
          digests of FxBridgeLogic.sol on a bounded family of objects; the harness (TestAbi) hashes the word
          sequences and compares them byte for byte with fx-core's real GetCheckpoint functions (Ethereum encoder
          and Tron encoder) and checks injectivity on the family.
"""
import json, os, time
import specs, vlib
from specs import graph_property
from vlib import Infra, log

CONFIRM_RESET = dict(name="Reset", form="none", wsender="none", sender="none", oracle="none", ext="none", obj="none", sig="none", res="ok")

CLASSES = ["good", "other-object", "other-kind", "other-gravity-id", "other-chain", "other-prefix", "other-key",
           "malleated", "v01", "trailing-byte", "garbage"]

CONFIRM_FORMULAS = dict(
    invariants=["C12_ConfirmsAreSigned", "C12_OnePerOracleAndObject", "C12_BridgerIsWellDefined"],
    properties=["C12_KeptOnce", "C12_OnlyBridgerOfThatOracle", "C12_BridgerReplacedOnlyByEdit", "C12_NoCrossUse",
                "C12_ConfirmTouchesOnlyConfirms"],
    p_properties=["P_C12_KeptOnce", "P_C12_OnlyBridgerOfThatOracle", "P_C12_BridgerReplacedOnlyByEdit", "P_C12_NoCrossUse",
                  "P_C12_ConfirmTouchesOnlyConfirms"])

ORACLES, SENDERS, EXTS = ["o1", "o2"], ["b1", "b2", "x"], ["e1", "e2", "eu"]
OVERRIDES = {"BridgerOf": "BridgerStd", "ExtOf": "ExtStd"}

# objects: os<n> oracle set request n (created by the real EndBlocker in the set-up), tb<n> outgoing batch n
# (MsgSendToExternal + MsgRequestBatch), bc<n> outgoing bridge call n (MsgBridgeCall); Late = created by operation
# MaxEdits = number of bridger replacements (EditBridger) after which states are no longer expanded.  In the wide
# families (MaxEdits=0) every EditBridger is executed from every state but the registries it leads to are not expanded;
# the "<tier>-edit" families have fewer objects and expand the registries reachable by 1-2 replacements (replaced bridger,
# new bridger, a replaced bridger re-bound to the other oracle, a replacement undone) under all confirmations.
SHAPES = {
    "dev":           dict(Object=["os1", "bc1"], Late=[], MaxConfirms=1, MaxEdits=1),
    "quick":         dict(Object=["os1", "tb1", "bc1", "bc2"], Late=["bc2"], MaxConfirms=2, MaxEdits=0),
    "quick-edit":    dict(Object=["os1", "tb1"], Late=[], MaxConfirms=2, MaxEdits=2),
    "thorough":      dict(Object=["os1", "os2", "tb1", "tb2", "bc1", "bc2"], Late=["tb2", "bc2"], MaxConfirms=2, MaxEdits=0),
    "thorough-edit": dict(Object=["os1", "tb1", "bc1", "bc2"], Late=["bc2"], MaxConfirms=2, MaxEdits=2),
    "mc-deep":       dict(Object=["os1", "os2", "tb1", "tb2", "bc1", "bc2"], Late=["tb2", "bc2"], MaxConfirms=3, MaxEdits=0),
}
CHAINS = {"dev": ["eth"], "quick": ["eth", "tron"], "thorough": ["eth", "tron", "bsc"]}


def tla_consts(shape, verifying):
    s = SHAPES[shape]
    return dict(Oracle=ORACLES, Sender=SENDERS, Ext=EXTS, Object=s["Object"], Late=s["Late"], SigClass=CLASSES,
                Verifying=sorted(verifying), MaxConfirms=s["MaxConfirms"], MaxEdits=s["MaxEdits"])


def harness_consts(chain, shape, verifying):
    s = SHAPES[shape]
    return dict(chain=chain, Oracle=ORACLES, Sender=SENDERS, Ext=EXTS, Object=s["Object"], Late=s["Late"],
                BridgerOf={"o1": "b1", "o2": "b2"}, ExtOf={"o1": "e1", "o2": "e2"}, Verifying=sorted(verifying))


ASSUMPTIONS = [
    "messages are delivered in memory through the application's MsgServiceRouter with ValidateBasic and per-message atomicity; the "
    "transaction signer is the account the application's signing context (cosmos.msg.v1.signer) requires for the message: the specific "
    "confirm's bridger_address, or the MsgConfirm wrapper's bridger_address (MsgConfirm has no UnpackInterfaces on this tree, so a wrapper "
    "decoded from transaction bytes carries no cached inner value; the wrapper is exercised with the inner value attached, as a fixed codec would)",
    "which abstract signature classes verify is decided by the harness's independent verifier (65-byte r|s|v, v in {27,28} or {0,1}, "
    "go-ethereum Ecrecover over keccak256(prefix || checkpoint) compared with the address of the key, as FxBridgeLogic.verifySig) over a "
    "checkpoint recomputed by the harness's own ABI encoder; a malleated twin (r, n-s, flipped v) and v in {0,1} are valid signatures of "
    "the registered key over the exact checkpoint and the property allows accepting them; it forbids keeping a second confirmation",
    "oracle registry built by the set-up (2 oracles bonded through MsgBondedOracle, external address = address of a secp256k1 key the "
    "harness holds) and changed by EditBridger only (bridger replaced by an unbound account, at most MaxEdits times per run; "
    "MsgEditBridger cannot pass ValidateBasic on this tree, its handler is called directly and atomically with the oracle as signer); "
    "both stores that name an oracle's bridger are projected raw (Oracle record 0x12, bridger index 0x14); oracle set requests created by the application's real EndBlocker, the FX bridge token by an observed "
    "MsgBridgeTokenClaim, batches by MsgSendToExternal+MsgRequestBatch (requested by an oracle account), bridge calls by MsgBridgeCall; params via MsgUpdateParams (gov authority)",
    "the projection reads the crosschain store prefixes 0x12 0x14 0x15 0x16 0x20 0x22 0x40 0x45 0x48 raw; `valid` is recomputed per stored "
    "confirmation with the harness's own encoder and verifier, never with the keeper's",
    "number of stored confirmations bounded (MaxConfirms) by an action constraint; the Tron contract's Solidity source is not in the "
    "repository: for tron the layout of FxBridgeLogic.sol is assumed with TVM address words (20 bytes, 0x41 prefix dropped) and the "
    "'\\x19TRON Signed Message:\\n32' prefix fx-core uses",
    "part 2: byte equality of the digests is shown for the bounded family TLC evaluates (lists of length 0..3, byte strings of "
    "0,1,31,32,33(,64,65) bytes, integers 0,1,2^32-1,2^63-1,2^63,2^64-1,2^64,2^256-1, boundary addresses), which covers every layout "
    "case of the encoding; it is not a proof for all sizes",
]


def run_test(work, binary, test, env, tag):
    logf = work.path("%s.log" % tag)
    held = vlib.acquire_slots(1) if hasattr(vlib, "acquire_slots") else None
    try:
        rc = vlib.run_harness(work, binary, test, env, logf).wait()
    finally:
        if held is not None:
            vlib.release_slots(held)
    if rc != 0:
        raise Infra("harness %s failed:\n%s" % (test, open(logf, errors="replace").read()[-3000:]))
    return logf


def classes_prestep(work, binary, tier):
    """Independent verification of every signature class on every chain of the tier -> the model's constant Verifying."""
    shape = tier if tier in SHAPES else "quick"
    result = None
    per_chain = {}
    for chain in CHAINS[tier]:
        out = work.path("classes-%s.json" % chain)
        run_test(work, binary, "TestClasses", dict(VERIF_CONST=json.dumps(harness_consts(chain, shape, [])), VERIF_CLASSES=out), "classes-" + chain)
        res = json.load(open(out))
        per_chain[chain] = res
        if result is not None and res != result:
            raise Infra("signature classes verify differently on different chains: %s" % per_chain)
        result = res
    if set(result) != set(CLASSES):
        raise Infra("class list of harness and runner differ: %s" % sorted(result))
    verifying = sorted(c for c, v in result.items() if v)
    log("independent verifier: classes that verify for exactly (registered key, object, module): %s" % verifying)
    if "good" not in verifying:
        raise Infra("the independent verifier rejects a good signature")
    return verifying, result


def abi_part(work, binary, tier, lines_file=None):
    """Part 2.  Returns (summary dict, list of mismatch samples)."""
    t0 = time.time()
    tlc = None
    if lines_file is None:
        cfg = work.path("abi.cfg")
        vlib.write_cfg(cfg, init="Init", next_="Next", consts=dict(Big=(tier == "thorough")))
        lines_file = work.path("abi.out")
        r = vlib.run_tlc(work, "AbiCheckpointMC.tla", cfg, lines_file, workers=1, timeout=1200)
        if r["error"] or r["violated"] or r["rc"] != 0:
            raise Infra("TLC evaluation of AbiCheckpointMC failed: %s\n%s" % (r["error"] or r["violated"], r["tail"][-1500:]))
        tlc = round(r["wall"], 1)
    stats = work.path("abi-stats.json")
    run_test(work, binary, "TestAbi", dict(VERIF_ABI=lines_file, VERIF_ABI_STATS=stats), "abi")
    s = json.load(open(stats))
    samples = s.pop("mismatch_samples") or []
    s["tlc_wall_s"] = tlc
    s["wall_s"] = round(time.time() - t0, 1)
    s["family"] = "thorough" if tier == "thorough" else "quick"
    mism = s["mismatches_with_uint64_field_ge_2^63"] + s["mismatches_other"]
    log("ABI digests: %d objects evaluated by TLC (%s); equal to FxBridgeLogic's definition: Ethereum encoder %d, Tron encoder %d; "
        "%d mismatches (%d of them on objects with a uint64 field >= 2^63); %d digest collisions"
        % (s["objects"], ", ".join("%s=%d" % kv for kv in sorted(s["by_kind"].items())), s["eth_encoder_equal"], s["tron_encoder_equal"],
           mism, s["mismatches_with_uint64_field_ge_2^63"], s["digest_collisions"]))
    return s, samples


def abi_verdict(work, s, samples):
    """Returns a replay path if part 2 shows a violation on the real code, else None."""
    if not samples and not s["digest_collisions"]:
        return None
    doc = dict(part="abi", what="digest computed by fx-core differs from keccak256(abi.encode(...)) as FxBridgeLogic.sol defines it"
               if samples else "two different objects of the family have the same digest",
               samples=samples[:6], first_collision=s.get("first_collision"), lines=list(dict.fromkeys(m["line"] for m in samples[:12])))
    return vlib.save_replay(work, "abi-violation", doc)


def merge_evidence(work, abi, classes, violations):
    p = os.path.join(vlib.VERIF, "evidence", work.pid + ".json")
    ev = json.load(open(p))
    ev["coverage"]["signature_classes_verify_independently"] = classes
    ev["coverage"]["abi_digest_equality"] = dict(
        abi, statement="byte equality of fx-core's digests with the contract's definition is shown for the bounded family TLC "
                       "evaluated (this many objects), not for all sizes; tron compared structurally (no Tron Solidity source in the repository)")
    ev["coverage"]["traces_validated_against_impl"] = ev["coverage"].get("traces_validated_against_impl", 0)
    ev["violations"] = violations
    ev["wall_s"] = round(time.time() - work.t0, 1)
    with open(p, "w") as f:
        json.dump(ev, f, indent=1, sort_keys=True)
        f.write("\n")


def confirm(work, args):
    tier = work.tier
    if tier not in CHAINS:
        raise Infra("unknown tier " + tier)
    # one build for all steps (graph_property builds through vlib.build as well)
    orig_build, memo = vlib.build, {}

    def build_once(w, pkg):
        if pkg not in memo:
            memo[pkg] = orig_build(w, pkg)
        return memo[pkg]
    vlib.build = build_once
    try:
        if getattr(args, "replay", None):
            doc = json.load(open(args.replay))
            if doc.get("part") == "abi":
                binary = vlib.build(work, "confirm")
                lf = work.path("abi-replay.ndjson")
                open(lf, "w").write("\n".join(doc["lines"]) + "\n")
                s, samples = abi_part(work, binary, tier, lines_file=lf)
                if samples or s["digest_collisions"]:
                    for m in samples[:3]:
                        log("  %s: contract definition %s, fx-core %s %s" % (m["encoder"], m["digest_of_contract_definition"], m["digest_of_fxcore"], m.get("error", "")))
                    print("VIOLATION property=C12 replay=%s" % args.replay, flush=True)
                    return 1
                log("all digests of the replayed objects equal the contract's definition")
                return 0
            return graph_property(work, args, pid="C12", module="Confirm", mcmodule="ConfirmMC", pkg="confirm", formulas=CONFIRM_FORMULAS,
                                  mc_cfgs=[], gen_cfgs=[], reset_op=CONFIRM_RESET, level_note="", design_ref="5/C12", assumptions=ASSUMPTIONS)
        binary = vlib.build(work, "confirm")
        verifying, classes = classes_prestep(work, binary, tier)
        shape = tier
        mc_cfgs = [dict(name="mc", tiers=[tier], consts=tla_consts(shape, verifying), overrides=OVERRIDES)]
        if tier != "dev":
            mc_cfgs.append(dict(name="mc-edit", tiers=[tier], consts=tla_consts(tier + "-edit", verifying), overrides=OVERRIDES))
        if tier == "thorough":
            mc_cfgs.append(dict(name="mc-deep", tiers=[tier], consts=tla_consts("mc-deep", verifying), overrides=OVERRIDES, timeout=1200))
        # odd shard counts: graph.go assigns states to shards by FNV-1a % shards, whose lowest bit is only a parity
        def gen(name, chains, rej_sample, shards, shape=shape):
            return dict(name=name, tiers=[tier], consts=tla_consts(shape, verifying), overrides=OVERRIDES,
                        harness=[harness_consts(c, shape, verifying) for c in chains], shards=shards, rej_sample=rej_sample,
                        may_never_succeed=("Create",) if not SHAPES[shape]["Late"] else ())
        if tier == "thorough":
            # every operation in every state on eth; on the other chains every accepted edge and a third of the rejected ones;
            # bridger replacements (2 deep): every accepted edge and an eighth of the rejected ones on eth and tron
            gen_cfgs = [gen("gen-thorough", CHAINS[tier][:1], 0, 15), gen("gen-thorough-sampled", CHAINS[tier][1:], 800, 15),
                        gen("gen-thorough-edit", CHAINS[tier][:2], 200, 15, shape="thorough-edit")]
        elif tier == "quick":
            gen_cfgs = [gen("gen-quick", CHAINS[tier], 150, 13), gen("gen-quick-edit", CHAINS[tier], 150, 13, shape="quick-edit")]
        else:
            gen_cfgs = [gen("gen-" + tier, CHAINS[tier], 40, 13)]
        rc1 = graph_property(work, args, pid="C12", module="Confirm", mcmodule="ConfirmMC", pkg="confirm", formulas=CONFIRM_FORMULAS,
                             mc_cfgs=mc_cfgs, gen_cfgs=gen_cfgs, reset_op=CONFIRM_RESET, level_note="", design_ref="5/C12",
                             assumptions=ASSUMPTIONS)
        abi, samples = abi_part(work, binary, tier)
        rp = abi_verdict(work, abi, samples)
        rc2 = 0
        if rp:
            rc2 = 1
            for m in samples[:3]:
                log("  %s: contract definition %s, fx-core %s %s\n    object %s" % (m["encoder"], m["digest_of_contract_definition"], m["digest_of_fxcore"],
                    m.get("error", ""), m["line"][:260]))
            log("fx-core's checkpoint differs from the digest FxBridgeLogic.sol defines on %d objects of the family"
                % (abi["mismatches_with_uint64_field_ge_2^63"] + abi["mismatches_other"]))
            print("VIOLATION property=C12 replay=%s" % rp, flush=True)
        merge_evidence(work, abi, classes, (1 if rc1 else 0) + rc2)
        return 1 if (rc1 or rc2) else 0
    finally:
        vlib.build = orig_build


specs.REGISTRY["C12"] = confirm

specs.MANIFEST.update({
 "C12": dict(category="model_checking",
             technique="TLA+ specs Confirm.tla (TLC exhaustive model check + replay of every TLC-generated transition on the real confirm "
                       "handlers with real secp256k1 signatures + TLC evaluation of the C12 formulas on recorded real behaviours) and "
                       "AbiCheckpoint.tla (from-scratch abi.encode and the three digests of FxBridgeLogic.sol evaluated by TLC on a bounded "
                       "family; digests compared byte for byte with the real GetCheckpoint functions of both encoders)",
             text="Confirm.tla models the three confirm handlers and the MsgConfirm wrapper of one bridge module over 2 oracles, 4-6 objects of "
                  "the three kinds and 11 abstract signature classes (good, other object/kind/gravity id/chain/prefix/key, malleated, v in {0,1}, "
                  "trailing byte, garbage) that the harness realises with real signatures; every generated transition is executed on the real "
                  "keeper (both message forms, every sender/external-address/object/class combination) and the formulas (stored confirmations "
                  "recover to the registered key over the checkpoint recomputed by an independent encoder; one slot per oracle and object, kept "
                  "once; only the oracle's bridger as transaction signer, where the bridger is replaceable by EditBridger and must be the account "
                  "named by the oracle record and bound in the bridger index; no cross use) are evaluated by TLC on the recorded real behaviours. "
                  "AbiCheckpoint.tla defines abi.encode (head/tail layout as 32-byte words) and the oracle-set, batch and bridge-call digests "
                  "from FxBridgeLogic.sol; TLC evaluates them on a bounded family and the harness compares keccak256 of the words with "
                  "OracleSet/OutgoingTxBatch/OutgoingBridgeCall.GetCheckpoint and x/tron/types' encoder, plus injectivity.",
             note="bounded: 2 oracles, <=2 objects per kind, <=2 stored confirmations and <=2 bridger replacements per run; digest equality shown for the bounded family "
                  "(lists 0..3, byte strings 0,1,31,32,33(,64,65), boundary integers), not all sizes; Tron contract source not in the repository "
                  "(structural comparison); MsgConfirm exercised in memory; trusted: TLC, go-ethereum secp256k1 recovery, keccak, the projection",
             ref="5 (C12)"),
})
