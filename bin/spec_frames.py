"""Frames.tla : C09  (a precompile call is all-or-nothing across Cosmos state and EVM state)

The program family (call-tree SHAPES x METHOD variants) is defined here once; it is rendered
 * into spec/FramesMC.tla (operator ProgData: the shapes as TLA+ records)   [python3 bin/spec_frames.py --emit]
 * into the harness constants (VERIF_CONST: the same shapes + which method realises effect k).
The gas dimension needs a measuring pre-pass (harness TestProfile): for every case the cumulative gas at
every executed opcode, every gas limit derived from it executed under the frame tracer, classified by the
set of call frames that ran out of gas; the classes become the constant Cuts of the generation run.
"""
import json, os, sys, time, subprocess

sys.path.insert(0, os.path.dirname(os.path.abspath(__file__)))
import specs, vlib
from vlib import Infra, log

# ---------------------------------------------------------------------------------------------------
# shapes.  item: ("N",k[,mode]) native effect k | ("F",mode) native call built to fail | ("E",j) EVM effect
#          ("P",mode) native call whose action PANICS midway (aborts the transaction)
#          ("S",[items],mode) sub-frame | "R" REVERT | "I" INVALID ; mode "p" propagate (default) / "c" catch
# ---------------------------------------------------------------------------------------------------
N1, N2, N3, E1, E2, R, I = ("N", 1), ("N", 2), ("N", 3), ("E", 1), ("E", 2), "R", "I"
Fc, Fp = ("F", "c"), ("F", "p")
Pc, Pp = ("P", "c"), ("P", "p")


def S(items, mode="p"):
    return ("S", items, mode)


SHAPES_QUICK = {  # depth <= 2
    "d01": [N1],                                   # direct call
    "d02": [N1, R],                                # revert after the call
    "d03": [S([N1])],                              # nested, kept
    "d04": [S([N1, R], "c")],                      # caught revert after the native call
    "d05": [S([N1, R])],                           # uncaught revert
    "d06": [N1, S([N2, R], "c"), N3],              # kept / dropped / kept
    "d07": [S([R], "c"), N1],                      # caught revert BEFORE the native call
    "d08": [N1, N2],                               # repeated calls
    "d09": [N1, S([N2]), R],                       # enclosing frame reverts after a nested success
    "d10": [Fc, N1],                               # the call itself fails, caller catches
    "d11": [N1, Fp],                               # the call itself fails, not caught
    "d12": [E1, N1, S([E2, N2, R], "c")],          # EVM effects share the fate of their frame
    "d13": [S([N1, I], "c"), N2],                  # exceptional halt in a caught sub-frame
    "d14": [S([N1], "c"), S([Fp], "c"), N2],       # failing native call reverts its (caught) frame
}
SHAPES_DEEP = {  # depth 3
    "t01": [S([S([N1])])],
    "t02": [S([S([N1, R], "c"), N2]), N3],
    "t03": [S([N1, S([N2]), R], "c"), N3],         # inner success dropped by the middle frame's revert
    "t04": [S([S([N1], "c"), R], "c"), N2],
    "t05": [N1, S([N2, S([N3, R])], "c")],         # deep propagating revert caught at the top
    "t06": [S([S([N1]), N2]), R],                  # everything dropped at the root
    "t07": [S([Fc, N1]), S([N2, Fp], "c"), N3],
    "t08": [E1, S([N1, S([E2, N2], "c"), R], "c"), N3],
    "t09": [S([S([N1, I], "c"), N2], "c"), N3],
    "t10": [S([N1, S([N2], "c")]), S([S([N3])], "c"), R],
    "t11": [S([S([N1]), S([N2, R], "c")], "c"), N3],
    "t12": [N1, S([S([N2], "c"), Fp], "c"), E1],
}
# shapes with a native call whose action panics after partial work (fail = "panic")
SHAPES_PANIC_QUICK = {  # depth <= 2
    "p01": [Pp],                                   # direct call: nothing catches
    "p02": [N1, Pc, N2],                           # the caller "catches": an abort is not a failure one can catch
    "p03": [N1, S([N2, Pp], "c"), N3],             # panic in a caught sub-frame after kept work
    "p04": [S([Fp, Pp], "c"), N1],                 # NOT reached (an earlier call fails its frame): ordinary execution
    "p05": [E1, S([N1, R], "c"), S([Pc, E2, R], "c"), N2],  # after a caught revert, inside a frame that would revert anyway
}
SHAPES_PANIC_DEEP = {  # depth 3
    "q01": [N1, S([S([N2, Pc], "c"), N3], "c")],
    "q02": [S([S([R], "c"), N1]), S([S([Pp]), N2], "c"), N3],
    "q03": [S([N1, S([I], "c")], "c"), E1, S([S([N2], "c"), Pp, R], "c")],
}
SHAPES_PANIC = dict(SHAPES_PANIC_QUICK, **SHAPES_PANIC_DEEP)
SHAPES = dict(SHAPES_QUICK, **SHAPES_DEEP)
SHAPES.update(SHAPES_PANIC)

STAKING = ["delegateV2", "undelegateV2", "redelegateV2", "withdraw", "approveShares", "transferShares", "transferFromShares"]
CROSS = ["crossChain", "bridgeCall", "cancelSendToExternal", "increaseBridgeFee", "executeClaim"]
# method variants: which method realises native effect 1, 2, 3
VARIANTS = {m: [m, m, m] for m in STAKING + CROSS}
VARIANTS.update({
    "ccfx": ["crossChainFX"] * 3,                                     # crossChain paying with msg.value (origin token)
    "mixA": ["delegateV2", "bridgeCall", "approveShares"],
    "mixB": ["crossChain", "transferFromShares", "executeClaim"],
    "mixC": ["undelegateV2", "cancelSendToExternal", "withdraw"],
    "mixD": ["transferShares", "increaseBridgeFee", "redelegateV2"],
    "mixE": ["crossChain", "bridgeCall", "cancelSendToExternal"],    # in-frame ERC-20 writes next to bridgeCall's conversion
})
MAXNAT, MAXEVM = 3, 2


def uses_evm(items):
    return any((isinstance(it, tuple) and (it[0] == "E" or (it[0] == "S" and uses_evm(it[1])))) for it in items)


def compile_shape(items):
    """-> frame table [{id, steps:[{t,k,mode,fail,id}]}] (frame 0 = root), preorder slot ids from 1."""
    frames = []
    counter = [0]

    def new_id():
        counter[0] += 1
        return counter[0]

    def build(items, fid):
        idx = len(frames)
        frames.append(dict(id=fid, steps=[]))
        steps = []
        for it in items:
            if it == "R":
                steps.append(dict(t="rev", k=0, mode="propagate", fail="no", id=0))
            elif it == "I":
                steps.append(dict(t="inv", k=0, mode="propagate", fail="no", id=0))
            elif it[0] == "N":
                mode = "catch" if len(it) > 2 and it[2] == "c" else "propagate"
                steps.append(dict(t="nat", k=it[1], mode=mode, fail="no", id=new_id()))
            elif it[0] == "F":
                steps.append(dict(t="nat", k=0, mode="catch" if it[1] == "c" else "propagate", fail="err", id=new_id()))
            elif it[0] == "P":
                steps.append(dict(t="nat", k=0, mode="catch" if it[1] == "c" else "propagate", fail="panic", id=new_id()))
            elif it[0] == "E":
                steps.append(dict(t="evm", k=it[1], mode="propagate", fail="no", id=new_id()))
            elif it[0] == "S":
                sid = new_id()
                child = build(it[1], sid)
                steps.append(dict(t="sub", k=child + 1, mode="catch" if it[2] == "c" else "propagate", fail="no", id=sid))
        frames[idx]["steps"] = steps
        return idx

    build(items, new_id())
    return frames


def depth(items):
    return 1 + max([depth(it[1]) for it in items if isinstance(it, tuple) and it[0] == "S"] + [0])


def case_id(shape, variant):
    return "%s_%s" % (shape, variant)


def cases(shapes, variants):
    out = {}
    for s in shapes:
        for v in variants:
            out[case_id(s, v)] = dict(frames=compile_shape(SHAPES[s]), methods=VARIANTS[v], shape=s, variant=v)
    return out


ALL_CASES = cases(sorted(SHAPES), sorted(VARIANTS))

# ---------------------------------------------------------------------------------------------------
# TLA+ rendering
# ---------------------------------------------------------------------------------------------------


def tla(v):
    if isinstance(v, bool):
        return "TRUE" if v else "FALSE"
    if isinstance(v, int):
        return str(v)
    if isinstance(v, str):
        return json.dumps(v)
    if isinstance(v, list):
        return "<<" + ", ".join(tla(x) for x in v) + ">>"
    if isinstance(v, dict):
        return "[" + ", ".join("%s |-> %s" % (k, tla(x)) for k, x in v.items()) + "]"
    raise ValueError(v)


def emit_mc():
    lines = ["------------------------------ MODULE FramesMC ------------------------------",
             "(* GENERATED by `python3 bin/spec_frames.py --emit` from the shape table in bin/spec_frames.py.",
             "   ShapeData: the call-tree shapes as frame tables (see Frames.tla); ProgData: one entry per",
             "   case = shape x method variant (the model does not look at the method).  *)",
             "EXTENDS Frames, FramesCuts", ""]
    lines.append("ShapeData == [")
    lines.append(",\n".join("  %s |-> %s" % (s, tla(compile_shape(SHAPES[s]))) for s in sorted(SHAPES)))
    lines.append("]")
    lines.append("")
    lines.append("CaseShape == [")
    lines.append(",\n".join("  %s |-> %s" % (c, tla(ALL_CASES[c]["shape"])) for c in sorted(ALL_CASES)))
    lines.append("]")
    lines.append("ProgData == [p \\in DOMAIN CaseShape |-> ShapeData[CaseShape[p]]]")
    lines.append("\\* model-checking configuration: EVERY subset of call frames may run out of gas")
    lines.append("CutsAll == [p \\in DOMAIN CaseShape |-> [1..NSlots(p) -> BOOLEAN]]")
    lines.append("=============================================================================")
    return "\n".join(lines) + "\n"


def emit_cuts(classes):
    """classes: {case: [pattern(list of bool)...]} -> module FramesCuts defining CutsData."""
    lines = ["----------------------------- MODULE FramesCuts -----------------------------",
             "(* out-of-gas classes MEASURED on the real EVM by the profiling pre-pass of this run *)"]
    body = ",\n".join("  %s |-> {%s}" % (c, ", ".join(tla(p) for p in pats)) for c, pats in sorted(classes.items()))
    lines.append("CutsData == [\n" + body + "\n]" if classes else "CutsData == <<>>")
    lines.append("=============================================================================")
    return "\n".join(lines) + "\n"


# ---------------------------------------------------------------------------------------------------
# registration
# ---------------------------------------------------------------------------------------------------
RESET = dict(name="Reset", p="none", c=[], res="ok")
FORMULAS = dict(
    invariants=["C09_NoLeak", "C09_NoSplit"],
    properties=["C09_AllOrNothing", "C09_NothingWhenFailed", "C09_Status", "C09_InvalidNoEffect", "C09_AbortNoEffect"],
    p_properties=["P_C09_AllOrNothing", "P_C09_NothingWhenFailed", "P_C09_Status", "P_C09_InvalidNoEffect", "P_C09_AbortNoEffect"])

Q_SHAPES = sorted(SHAPES_QUICK)
QP_SHAPES = sorted(SHAPES_PANIC_QUICK)
T_SHAPES = sorted(SHAPES)
# the situations every state-changing METHOD is put in by every quick run (the property quantifies over all of
# them): its effect is the first - and only - native write of a frame the EVM drops (transaction fails / caller
# catches the revert), its own late failure is caught before a success, and its late failure undoes an earlier success
CORE_SHAPES = ["d02", "d04", "d10", "d11"]
SINGLE_METHOD_VARIANTS = sorted(STAKING + CROSS + ["ccfx"])
TIERS = {
    # tier: (shapes, variants, cut mode)
    "dev": (["d01", "d04", "d06", "d12", "p02", "p04"], ["delegateV2", "crossChain"], "sample"),
    "quick": (Q_SHAPES + QP_SHAPES, None, "sample"),   # variants: quick_variants(seed); + CORE_SHAPES x every method
    "thorough": (T_SHAPES, sorted(VARIANTS), "all"),
}
# quick tier: three fixed method variants - a single-step staking method, the allowance-consuming multi-step
# staking method (allowance decrement + reward withdrawal + share move in one action), the cross-chain method
# that pulls an approved ERC-20 through the running EVM, converts and pools it - plus one further staking and
# one further cross-chain variant rotated by VERIF_SEED (the thorough tier runs all of them) on all quick shapes
# (incl. those with a panicking native action); every method on the CORE_SHAPES
QUICK_FIXED = ["delegateV2", "transferFromShares", "crossChain"]
QUICK_ROT_STK = ["undelegateV2", "transferShares", "redelegateV2", "withdraw", "approveShares"]
QUICK_ROT_CC = ["executeClaim", "increaseBridgeFee", "cancelSendToExternal", "bridgeCall", "ccfx"]


def quick_variants(seed):
    return QUICK_FIXED + [QUICK_ROT_STK[seed % len(QUICK_ROT_STK)], QUICK_ROT_CC[seed % len(QUICK_ROT_CC)]]


# Scenario of a known finding.  bridgeCall (ERC-20 -> coin, EvmToBaseCoin) and cancelSendToExternal (refund
# coin -> ERC-20, HookOutgoingRefund) convert through KEEPER-LEVEL EVM calls that create and commit a NESTED
# state DB inside the native action, while the calling transaction's own pending writes to the same token
# contract live in the OUTER state DB and overwrite the nested commit at the end: after an in-frame token
# write by the same holder (plain transfer, or crossChain whose ERC-20 legs run in the calling EVM) the
# conversion's ERC-20 side is lost although its Cosmos side is persisted.  Cases that can reach it are checked
# in a separate pass (DESIGN section 4): the main pass must hold without them; a violation in the scenario
# pass is printed as KNOWN-FINDING iff known_findings.json lists SCENARIO_ID, as VIOLATION otherwise.
SCENARIO_ID = "C09-nested-statedb-token-conversion"
NESTED_CONVERTERS = {"bridgeCall", "cancelSendToExternal"}
INFRAME_TOKEN_WRITERS = {"crossChain"}


def in_scenario(case):
    v = ALL_CASES[case]
    ms = set(v["methods"])
    if not (ms & NESTED_CONVERTERS):
        return False
    return uses_evm(SHAPES[v["shape"]]) or bool(ms & INFRAME_TOKEN_WRITERS)


def tier_cases(tier, seed=1):
    shapes, variants, _ = TIERS[tier]
    extra = []
    if variants is None:
        variants = quick_variants(seed)
        extra = [case_id(s, v) for s in CORE_SHAPES for v in SINGLE_METHOD_VARIANTS]
    return sorted(set([case_id(s, v) for s in shapes for v in variants] + extra))


def consts(ids):
    return dict(ProgId=ids, MaxNat=MAXNAT, MaxEvm=MAXEVM, MaxTx=1)


def harness_const(ids, cuts_file, mode):
    # the shapes themselves are compiled into the harness (harness/frames/cases.json, written by --emit)
    return dict(chain="x", ids=ids, cuts=cuts_file, cutmode=mode)


def emit_cases():
    return json.dumps({c: dict(frames=v["frames"], methods=v["methods"]) for c, v in sorted(ALL_CASES.items())}, indent=0, sort_keys=True) + "\n"


GENERATED = {os.path.join(vlib.SPEC, "FramesMC.tla"): emit_mc, os.path.join(vlib.HARNESS, "frames", "cases.json"): emit_cases}


def check_generated():
    for path, fn in GENERATED.items():
        if not os.path.exists(path) or open(path).read() != fn():
            raise Infra("%s is out of date: run python3 bin/spec_frames.py --emit" % path)


def profile(work, binary, ids, mode, shards):
    """pre-pass: measures, for every case, the out-of-gas classes; returns ({case: [pattern]}, cuts file)."""
    t0 = time.time()
    hc = json.dumps(harness_const(ids, "", mode))
    pending, running, table = list(range(shards)), {}, {}
    while pending or running:
        while pending:
            held = vlib.acquire_slots(1, block=not running)
            if held is None:
                break
            i = pending.pop(0)
            out = work.path("profile-%d.json" % i)
            p = vlib.run_harness(work, binary, "TestProfile", dict(VERIF_CONST=hc, VERIF_SHARD=i, VERIF_SHARDS=shards, VERIF_PROFILE_OUT=out),
                                 work.path("profile-%d.log" % i))
            running[i] = (p, held, out)
        done = [i for i, (p, _, _) in running.items() if p.poll() is not None]
        if not done:
            time.sleep(0.3)
            continue
        for i in done:
            p, held, out = running.pop(i)
            vlib.release_slots(held)
            if p.returncode != 0 or not os.path.exists(out):
                for q, h, _ in running.values():
                    q.kill()
                    vlib.release_slots(h)
                raise Infra("profiling shard %d failed:\n%s" % (i, open(work.path("profile-%d.log" % i), errors="replace").read()[-3000:]))
            table.update(json.load(open(out)))
            os.remove(out)
    missing = [c for c in ids if c not in table]
    if missing:
        raise Infra("profiling produced no result for %s" % missing[:5])
    cuts_file = work.path("frames-cuts.json")
    json.dump(table, open(cuts_file, "w"))
    classes = {c: [cl["oog"] for cl in table[c]["classes"]] for c in ids}
    nl = sum(len(cl["L"]) for c in ids for cl in table[c]["classes"])
    log("profiling: %d cases, %d out-of-gas classes, %d gas limits, %.0fs" % (len(ids), sum(len(v) for v in classes.values()), nl, time.time() - t0))
    return classes, cuts_file, nl


# the same defect is listed for C08 under this id (bridgeCall after an outer token write); C09's scenario adds
# the refund leg of cancelSendToExternal
SAME_DEFECT_IDS = (SCENARIO_ID, "OuterWriteThenNestedConvert")


def known_scenario():
    return any(any(i in (f if isinstance(f, str) else json.dumps(f)) for i in SAME_DEFECT_IDS) for f in vlib.known_findings())


def run_c09(work, args):
    import io, contextlib
    tier = work.tier if work.tier in TIERS else "quick"
    check_generated()
    if getattr(args, "replay", None):
        open(work.path("FramesCuts.tla"), "w").write(emit_cuts({}))
        return specs.replay_path(work, args.replay, pid="C09", module="Frames", pkg="frames", formulas=FORMULAS, reset_op=RESET)
    ids = tier_cases(tier, work.seed)
    scen = [c for c in ids if in_scenario(c)]
    main = [c for c in ids if not in_scenario(c)]
    binary = vlib.build(work, "frames")
    rc = run_pass(work, args, binary, tier, main, "cases")
    if rc != 0 or not scen:
        return rc
    ev_main = json.load(open(os.path.join(vlib.VERIF, "evidence", "C09.json")))
    buf = io.StringIO()
    with contextlib.redirect_stdout(buf):
        try:
            rc_s = run_pass(work, args, binary, tier, scen, "scenario")
        except Infra as e:
            rc_s, _ = 2, print("INFRASTRUCTURE (scenario pass):", e)
    text = buf.getvalue()
    ev_s = json.load(open(os.path.join(vlib.VERIF, "evidence", "C09.json"))) if rc_s in (0, 1) else {}
    known = known_scenario()
    summary = dict(scenario=SCENARIO_ID, cases=scen, rc=rc_s, listed_in_known_findings=known,
                   replay=[l.split("replay=")[1].strip() for l in text.splitlines() if l.startswith("VIOLATION")],
                   deviations=ev_s.get("coverage", {}).get("deviations_from_spec"))
    ev_main["coverage"]["known_scenario_pass"] = summary
    final = 0
    if rc_s == 1 and known:
        # keep the reproduction under a stable name; C09-violation.json is reserved for unexpected violations
        src, dst = os.path.join(vlib.VERIF, "replays", "C09-violation.json"), os.path.join(vlib.VERIF, "replays", "C09-known-%s.json" % SCENARIO_ID)
        if os.path.exists(src):
            os.replace(src, dst)
            text = text.replace(src, dst)
            summary["replay"] = [dst]
    for line in text.splitlines():
        if line.startswith("VIOLATION") and known:
            log("KNOWN-FINDING: property=C09 scenario=%s (token conversion through a nested state DB after an in-frame token write) %s"
                % (SCENARIO_ID, line.split(" ")[-1]))
        else:
            log("[scenario %s] %s" % (SCENARIO_ID, line) if not line.startswith("VIOLATION") else line)
    if rc_s == 1 and not known:
        final = 1
    elif rc_s == 2:
        final = 2
    elif rc_s == 0:
        log("scenario %s: not reproduced on this tree (%d cases conform)" % (SCENARIO_ID, len(scen)))
    ev_main["violations"] = 1 if final == 1 else 0
    ev_main["wall_s"] = round(time.time() - work.t0, 1)
    json.dump(ev_main, open(os.path.join(vlib.VERIF, "evidence", "C09.json"), "w"), indent=1, sort_keys=True)
    return final


def run_pass(work, args, binary, tier, ids, name):
    _, _, mode = TIERS[tier]
    shards = 14 if tier != "dev" else 4
    classes, cuts_file, nlimits = profile(work, binary, ids, mode, shards)
    open(work.path("FramesCuts.tla"), "w").write(emit_cuts(classes))
    # model check on one variant per shape (the model does not see the method), all 2^slots patterns
    shapes = sorted({ALL_CASES[c]["shape"] for c in ids})
    mc_ids = [min(c for c in ids if ALL_CASES[c]["shape"] == s) for s in shapes]
    mc = [dict(name=name + "-allpatterns", tiers=[tier], consts=consts(mc_ids), overrides={"Prog": "ProgData", "Cuts": "CutsAll"}, timeout=1200)]
    gen = [dict(name=name, tiers=[tier], consts=consts(ids), overrides={"Prog": "ProgData", "Cuts": "CutsData"},
                harness=[harness_const(ids, cuts_file, mode)], shards=shards, rej_sample=0, explore=0)]
    real_build = vlib.build
    vlib.build = lambda w, pkg: binary
    try:
        return specs.graph_property(
            work, args, pid="C09", module="Frames", mcmodule="FramesMC", pkg="frames", formulas=FORMULAS,
            mc_cfgs=mc, gen_cfgs=gen, reset_op=RESET, level_note="", design_ref="5/C09", never_ok=("Intrinsic",),
            assumptions=ASSUMPTIONS + ["this run: %d cases, %d gas limits executed" % (len(ids), nlimits)])
    finally:
        vlib.build = real_build


ASSUMPTIONS = [
    "call trees are a curated family (14 shapes of depth<=2, 12 of depth 3, 5+3 with a native action that panics midway; <=3 native calls, <=2 EVM effects) x method variants, not all trees",
    "quick tier: all quick shapes x 3 fixed + 2 seed-rotated method variants, and the core shapes (revert after the call, caught revert after the call, caught late failure, late failure after a success) x EVERY method",
    "the panicking native action is realised by the one reachable with valid state: executeClaim of an observed failed bridge-call result whose refund cannot be converted back because governance disabled the token pair (HandleOutgoingBridgeCallRefund panics after the claim was consumed and the coins were released); the other methods have no reachable panic after partial work",
    "which call frames run out of gas under a given gas limit is MEASURED on the real EVM (frame tracer on a throw-away branch, same message) and given to the model; the model decides what must persist",
    "gas limits tried: around every executed opcode of the ample-gas run (cumulative gas -1, +0, +cost-1); thorough tier: every opcode + bisection between neighbouring limits with different fates; quick: opcodes around each call + every 8th",
    "transactions are executed at keeper level (EvmKeeper.EthereumTx, gas price 0): no fee deduction, so the dump comparison needs to ignore only the sender's account sequence",
    "caught sub-calls forward a fixed gas amount; precompile-internal ERC-20 calls use their own gas cap and are not part of the transaction's gas",
    "increaseBridgeFee is exercised with the origin token (msg.value); its ERC-20 path cannot succeed on this tree for bridged coins (reported)",
    "one transaction per behaviour (MaxTx = 1): every program starts from the same provisioned world",
]

specs.REGISTRY["C09"] = run_c09
specs.MANIFEST.update({
    "C09": dict(category="model_checking",
                technique="TLA+ spec Frames.tla (EVM frame/journal semantics over call trees): TLC exhaustive model check over all out-of-gas patterns + every program of the family executed as a real EVM transaction against the real precompiles under ample gas and under gas limits around every executed opcode + TLC evaluation of the C09 formulas on recorded real behaviours",
                text="Frames.tla gives a transaction (call tree of executor contracts with native precompile calls, plain EVM effects, caught/uncaught sub-calls, REVERT/INVALID, calls that fail inside the native action) the EVM's meaning and states the property independently (an effect is kept iff no frame on its chain fails). Every case is run on the real application through assembled contracts; persisted effects are read back from delegations, unbonding/redelegation entries, allowances, starting infos, pool entries, outgoing bridge calls, parked claims and ERC-20 balances; the complete multistore dump and the receipt logs are compared with those of the transaction reduced to its kept frames.",
                note="bounded: curated call-tree family, <=3 native calls per transaction, one transaction per behaviour; out-of-gas frames are measured, not predicted; trusted: TLC, go-ethereum's tracer callbacks, the read-back functions", ref="5 (C09)"),
})

if __name__ == "__main__":
    if "--emit" in sys.argv:
        for path, fn in GENERATED.items():
            os.makedirs(os.path.dirname(path), exist_ok=True)
            open(path, "w").write(fn())
            print("wrote", path)
        print("cases:", len(ALL_CASES))
