"""Authority.tla : C16 (privileged messages take effect only when issued by the governance authority)

The set of privileged message kinds is not written anywhere: a first harness run (TestList) asks the real
application for every registered sdk.Msg whose protobuf descriptor declares cosmos.msg.v1.signer = "authority"
(crosschain types once per chain module on the crosschain router) and the constants of Authority.tla are filled
from that list.  A discovered fx-core kind with a handler but without a payload generator in
harness/authority makes the check fail as incomplete (exit 2).
"""
import json
import specs
import vlib
from vlib import Infra, log
from specs import graph_property

AUTH_RESET = dict(name="Reset", kind="none", auth="none", pay="none", old="none", via="none", ent=[], res="ok")
# the authority is identified by the account it decodes to: the upper-case bech32 spelling of the gov address decodes to
# the governance module account and therefore IS the governance authority (x/evm CallContract accepts it, the other
# handlers refuse it; neither contradicts the property) - it is not an authority class here (lead decision).
# gov-suffix-21 / gov-suffix-32 / gov-prefix-32: valid bech32 (chain prefix) of LONGER addresses that contain the 20 gov
# bytes at the end / at the start - different accounts, must be rejected by every kind.
# user-hex / garbage: the 0x form of an ordinary account / a string that is no address in any encoding. Together with
# empty, gov-hex and gov-otherprefix these do not parse as account addresses of the chain: the router's stateless
# validation refuses them, delivered directly to the registered service implementation (Via "server") the handler's own
# check is all there is.
AUTH_CLASSES = ["gov", "othermodule", "user", "empty", "gov-hex", "gov-otherprefix", "gov-suffix-21", "gov-suffix-32", "gov-prefix-32",
                "user-hex", "garbage"]
VIA = ["router", "server"]
# entry lists of the raw store update (ShapeEntries in Authority.tla): distinct cells with matching / mismatching old
# values, and the same cell twice (chained = later entry states what the earlier one wrote; stale = later entry states the
# value from before the message)
SHAPES_QUICK = ["match", "mismatch_first", "mismatch_second", "chained", "stale", "stale_repeat"]
SHAPES_ALL = SHAPES_QUICK + ["chained_apart", "stale_apart", "stale_back"]

AUTH_FORMULAS = {
    "C16": dict(invariants=["C16_RejectedLeavesNoTrace"],
                properties=["C16_OnlyGov", "C16_OtherAuthorityRejected", "C16_StoreCompareAndSet", "C16_OnlyNamedKind"],
                p_properties=["P_C16_OnlyGov", "P_C16_OtherAuthorityRejected", "P_C16_StoreCompareAndSet", "P_C16_OnlyNamedKind"]),
}


def discover(work):
    binary = vlib.build(work, "authority")
    lst = work.path("kinds.json")
    p = vlib.run_harness(work, binary, "TestList", dict(VERIF_LIST=lst), work.path("list.log"), timeout=600)
    if p.wait() != 0:
        raise Infra("discovery of privileged message kinds failed:\n" + open(work.path("list.log")).read()[-3000:])
    kinds = json.load(open(lst))["kinds"]
    if not kinds:
        raise Infra("no privileged message kind discovered")
    missing = [k["kind"] for k in kinds if k["fxcore"] and k["routable"] and not k["has_gen"]]
    if missing:
        raise Infra("incomplete: the application registers privileged fx-core message kinds the harness has no payload "
                    "generator for (add one in harness/authority/adapter.go): %s" % ", ".join(missing))
    return kinds


def authority(pid):
    def run(work, args):
        if getattr(args, "replay", None):
            return graph_property(work, args, pid=pid, module="Authority", mcmodule="AuthorityMC", pkg="authority",
                                  formulas=AUTH_FORMULAS[pid], mc_cfgs=[], gen_cfgs=[], reset_op=AUTH_RESET, level_note="",
                                  design_ref="5/C16", assumptions=[])
        kinds = discover(work)
        names = sorted(k["kind"] for k in kinds)
        routable = sorted(k["kind"] for k in kinds if k["routable"])
        store = sorted(k["kind"] for k in kinds if k["store"])
        reject_only = sorted(k["kind"] for k in kinds if k["routable"] and not k["has_gen"])
        reset = sorted(k["kind"] for k in kinds if k.get("reset"))
        log("discovered %d privileged message kinds (%d fx-core with generators, %d without a handler, %d third-party reject-only):"
            % (len(names), len([k for k in kinds if k["fxcore"] and k["routable"]]), len(names) - len(routable), len(reject_only)))
        for k in kinds:
            log("  %s%s%s" % (k["kind"], "" if k["routable"] else "  [no handler on the router]",
                              "  [third-party: other-authority half only]" if k["kind"] in reject_only else ""))

        def consts(maxapplied, shapes=SHAPES_ALL):
            return dict(Kind=names, Routable=routable, StoreKind=store, RejectOnly=reject_only, ResetKind=reset, Auth=AUTH_CLASSES,
                        Shape=shapes, Via=VIA, MaxApplied=maxapplied)

        def gen(name, tiers, maxapplied, shards, rej, sdkaddr=False, shapes=SHAPES_ALL):
            hs = [dict(chain="app", MaxApplied=maxapplied, Kind=names)]
            if sdkaddr:
                # same graph once more in a process without fx-core's 20-byte address verifier: longer look-alike
                # authorities then pass stateless validation and must be refused by the handlers themselves
                hs.append(dict(chain="sdkaddr", MaxApplied=maxapplied, Kind=names, AddrCfg="sdk"))
            return dict(name=name, tiers=tiers, consts=consts(maxapplied, shapes), harness=hs,
                        shards=shards, rej_sample=rej, may_never_succeed=())

        # MaxApplied = n: states in which at most n privileged operations have taken effect are expanded
        mc = [dict(name="a0", tiers=["dev", "quick", "thorough"], consts=consts(0)),
              dict(name="a1", tiers=["quick", "thorough"], consts=consts(1)),
              dict(name="a2", tiers=["thorough"], consts=consts(2))]
        gens = [gen("dev", ["dev"], 0, 1, 0, sdkaddr=True),
                # every kind x authority class x payload class in the initial state, exhaustively
                gen("a0", ["quick", "thorough"], 0, 1, 0, sdkaddr=True),
                # the same after each single privileged operation has taken effect (rejections sampled in quick)
                gen("a1", ["quick"], 1, 14, 60, shapes=SHAPES_QUICK),
                gen("a1", ["thorough"], 1, 16, 0),
                gen("a2", ["thorough"], 2, 16, 30)]
        rc = graph_property(
            work, args, pid=pid, module="Authority", mcmodule="AuthorityMC", pkg="authority", formulas=AUTH_FORMULAS[pid],
            mc_cfgs=mc, gen_cfgs=gens, reset_op=AUTH_RESET, level_note="", design_ref="5/C16",
            assumptions=[
                "privileged kinds discovered at run time from the application's interface registry (cosmos.msg.v1.signer = authority) and crosschain router: " + ", ".join(names),
                "messages are routed through the application's MsgServiceRouter with ValidateBasic and per-message atomicity (world.Handle), as baseapp does; the complete multistore dump is compared before/after every operation the property says must have no effect",
                "authority classes: gov module account (canonical lower-case bech32); distribution module account; a user; empty; the gov address as 0x hex; the gov address bytes with bech32 prefix cosmos; valid chain-prefix bech32 of 21- and 32-byte addresses that end / start with the 20 gov bytes (other accounts). Authority identity is the decoded account: the upper-case bech32 spelling of the gov address (accepted by x/evm CallContract via strings.EqualFold, refused by the other handlers) decodes to the governance account and is not treated as a foreign authority",
                "payload class 'reset' (kinds with a delete/reset form: " + ", ".join(reset) + "): zero-value custom params / removal of a registered alias / removal of a disabled-precompile entry / overwrite of an existing raw store value, each against a target that exists so the form would take effect",
                "payload classes: one valid and one invalid payload per kind (invalid = stateless validation failure or handler-level failure, for MsgUpdateStore an unknown store space in the LAST entry)",
                "delivery: 'router' = the application's MsgServiceRouter (stateless validation, then the handler); 'server' = the service implementation each module registers for the message type, captured by running the application's own RegisterServices against a recording configurator and invoked directly without stateless validation (as other modules and the repository's keeper tests call it), so authority strings that are no account address of the chain (empty, 0x forms, foreign prefix, garbage) reach the handler's own check; direct delivery is driven with the valid and reset payloads (third-party kinds: empty body, foreign authorities)",
                "raw store update: the message is a list of [cell, old, new] entries over two cells of the " + "feegrant" + " store (symbolic values cur/next/tmp/other mapped to the cell's current byte, current+1, 0xee, 0xff); shapes: " + ", ".join(SHAPES_ALL) + " (quick, after one applied operation: " + ", ".join(SHAPES_QUICK) + "); whether the stated old values hold is computed by TLC from the entries (each old value against the cell's value when the entry is reached), the same entries are what the harness sends",
                "the initial-state sweep is executed twice: with the production address configuration (fx prefix, 20-byte address verifier: longer look-alike addresses already fail stateless validation) and in a process with the SDK default address configuration (no verifier, as the repository's keeper tests run), where they reach the handlers",
                "third-party kinds (cosmos-sdk, ibc, ethermint) are driven with non-governance authorities only (no payload generator): " + ", ".join(reject_only),
                "kinds registered in the interface registry without a handler on the router (legacy fx gov messages) must be rejected for every authority",
                "world: test genesis, targets (token pairs, ERC-20 contracts, alias coin) created through MsgRegisterCoin with the governance authority and keeper-level contract deployment",
            ])
        return rc
    return run


specs.REGISTRY["C16"] = authority("C16")

specs.MANIFEST.update({
 "C16": dict(category="model_checking", technique="TLA+ spec Authority.tla with the set of privileged message kinds discovered from the running application; TLC model check + replay of every (kind, authority class, payload class) on the real message router with a byte-exact multistore dump comparison + TLC evaluation of the C16 formulas on recorded real behaviours",
             text="Authority.tla: a privileged message takes effect iff its authority is the governance module account and its payload is valid (raw store update: and all stated old values match); otherwise it is rejected and nothing changes. The kinds are every registered message whose descriptor names `authority` as signer (16 crosschain kinds over 8 chain modules, erc20 x5, evm, gov x3, legacy gov x3 without handler, plus 17 third-party kinds driven with foreign authorities only). Each kind x 11 authority classes (incl. hex / foreign-prefix encodings of the gov address, longer addresses containing the gov bytes, the 0x form of a user and a non-address string) x valid/invalid payload (plus the delete/reset form of the four kinds that have one, against existing targets; x up to 9 entry lists for the store update: distinct cells matching/mismatching, the same cell twice chained / stale) is executed through the real router and, without stateless validation, on the service implementation registered for the type, in the initial state and after every single applied operation; effects are projected from kind-specific observables, and for every case that must not take effect the full multistore dump must be byte-identical.",
             note="one valid and one invalid payload per kind, not arbitrary payloads; third-party kinds only for the rejection half; messages via the router without signatures; trusted: TLC, the per-kind observables, the dump comparison", ref="5 (C16)"),
})
