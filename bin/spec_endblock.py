"""EndBlock.tla : C07 (block processing never halts)"""
import json, os
import specs, vlib
from specs import graph_property
from vlib import Infra, log

ENDBLOCK_RESET = dict(name="Reset", o="none", k="none", n=0, res="ok")

ENDBLOCK_FORMULAS = dict(
    invariants=["C07_Sane"],
    properties=["C07_TickNeverFails", "C07_OfflineExactly", "C07_OnlineChangedOnlyBy", "C07_Cursors", "C07_PowerRefreshed",
                "C07_SetRequest", "C07_SetsOnlyByTick", "C07_Pruning", "C07_GovResolved"],
    p_properties=["P_C07_TickNeverFails", "P_C07_OfflineExactly", "P_C07_OnlineChangedOnlyBy", "P_C07_Cursors", "P_C07_PowerRefreshed",
                  "P_C07_SetRequest", "P_C07_SetsOnlyByTick", "P_C07_Pruning", "P_C07_GovResolved"])

STAKES = {"Stake2": {"o1": 4, "o2": 1}, "Stake3": {"o1": 5, "o2": 4, "o3": 1}, "StakeEq": {"o1": 1, "o2": 1, "o3": 1}}
O1, O2, O3 = ["o1"], ["o1", "o2"], ["o1", "o2", "o3"]
GOVKINDS = ["dep", "pass", "rej", "veto", "bad", "exp"]
DEP, VOT, EXP = 2, 3, 1   # gov periods in blocks


def consts(oracles, *, w=2, kinds=(), sets=2, batch=0, call=0, obs=(), ticks=(1,), removable=(), propkind=(), props=0):
    return dict(Oracle=oracles, W=w, Kinds=list(kinds), MaxSets=sets, MaxBatch=batch, MaxCall=call, ObsSets=list(obs),
                Ticks=list(ticks), Removable=list(removable), PropKind=list(propkind), MaxProps=props,
                DepositBlocks=DEP, VotingBlocks=VOT, ExpBlocks=EXP)


def harness(chain, oracles, stake, w=2):
    return dict(chain=chain, Oracle=oracles, Stake=STAKES[stake], W=w, DepositBlocks=DEP, VotingBlocks=VOT, ExpBlocks=EXP)


def cfg(name, tiers, c, stake, chains, **kw):
    d = dict(name=name, tiers=tiers, consts=c, overrides={"Stake": stake},
             harness=[harness(ch, c["Oracle"], stake, c["W"]) for ch in chains], shards=kw.pop("shards", 14),
             rej_sample=kw.pop("rej_sample", 0))
    d.update(kw)
    return d


# what each configuration is about
C_CALL = consts(O2, kinds=["call"], sets=2, call=1, removable=["o2"])            # outgoing bridge call past the window
C_BATCH = consts(O2, kinds=["batch"], sets=2, batch=1, removable=["o2"])         # batch past the window
C_PRUNE = consts(O2, sets=3, obs=[1, 2, 3])                                      # oracle sets: slashing, refresh, pruning
C_GOV = consts(O1, sets=1, propkind=GOVKINDS, props=2)                           # gov end-blocker paths
C_DEV = consts(O2, kinds=["call"], sets=1, call=1)

ENDBLOCK_MC = [
    dict(name="mcdev", tiers=["dev"], consts=C_GOV, overrides={"Stake": "Stake2"}),
    dict(name="mccall", tiers=["quick", "thorough"], consts=C_CALL, overrides={"Stake": "Stake2"}),
    dict(name="mcbatch", tiers=["quick", "thorough"], consts=C_BATCH, overrides={"Stake": "Stake2"}),
    dict(name="mcprune", tiers=["quick", "thorough"], consts=C_PRUNE, overrides={"Stake": "Stake2"}),
    dict(name="mcgov", tiers=["quick", "thorough"], consts=C_GOV, overrides={"Stake": "Stake2"}),
]
ENDBLOCK_GEN = [
    cfg("gendev", ["dev"], C_GOV, "Stake2", ["eth"], shards=8),
    cfg("gencall", ["quick"], C_CALL, "Stake2", ["eth"], rej_sample=3),
    cfg("genbatch", ["quick"], C_BATCH, "Stake2", ["eth"], rej_sample=3),
    cfg("genprune", ["quick"], C_PRUNE, "Stake2", ["eth"], rej_sample=3),
    cfg("gengov", ["quick"], C_GOV, "Stake2", ["eth"], rej_sample=3),
]

ASSUMPTIONS = [
    "heights are relative: the abstraction reports min(currentHeight - creationHeight, W+1) per object and 'joined at or before the object' per (oracle, object); the code only compares height differences",
    "SignedWindow is set to 2 (its minimum) by the real MsgUpdateParams so that objects age beyond the window within a few real end-blockers; gov periods are 2/3/1 blocks",
    "an observed oracle-set update is applied at keeper level (UpdateOracleSetExecuted, what an observed MsgOracleSetUpdatedClaim executes); the FX bridge token and the observed external height are set at keeper level; claim attestation is Attest.tla's subject",
    "batches are never executed/cancelled and bridge calls never answered in this model (their deletion happens in claim handling, not at block end); oracles do not come back online (MsgAddDelegate) and do not unbond",
    "graph replay calls the application's real EndBlocker / PreBlocker / BeginBlocker on branches of the multistore; TestBlocks replays sampled paths through real FinalizeBlock+Commit and compares",
]


def run(work, args):
    return graph_property(
        work, args, pid="C07", module="EndBlock", mcmodule="EndBlockMC", pkg="endblock", formulas=ENDBLOCK_FORMULAS,
        mc_cfgs=ENDBLOCK_MC, gen_cfgs=ENDBLOCK_GEN, reset_op=ENDBLOCK_RESET, level_note="", design_ref="5/C07",
        assumptions=ASSUMPTIONS)


specs.REGISTRY["C07"] = run

specs.MANIFEST.update({
 "C07": dict(category="model_checking",
             technique="TLA+ spec EndBlock.tla: TLC exhaustive model check + replay of every TLC-generated transition (incl. Tick = the application's real EndBlocker/BeginBlocker) on the real application + sampled paths through real FinalizeBlock+Commit + TLC evaluation of the C07 formulas on recorded real behaviours",
             text="EndBlock.tla models the end-of-block logic of one bridge module (slashing of oracle sets / batches / outgoing bridge calls with their three cursors and the start-height exemption, the oracle-set request rule, pruning) and the gov end-blocker; Tick is a total action without error outcome. TLC checks the C07 formulas on all interleavings of bonding, governance removal, object creation, confirmations (real secp256k1 signatures), observed set updates, proposals and block ends; every generated transition is executed on branches of the real multistore with the application's real EndBlocker/BeginBlocker (panics and errors are the violation), the projected state compared after each step; the formulas are then evaluated by TLC on the recorded real behaviours.",
             note="bounded: 1-3 oracles, <=3 oracle sets, <=2 batches/bridge calls, <=2 proposals, SignedWindow 2 (3 in thorough); eth (thorough: tron, bsc); objects are not executed/cancelled; oracles do not re-activate; trusted: TLC, the abstraction function (raw store reads), branch emulation of block boundaries (cross-checked against real FinalizeBlock+Commit on sampled paths)",
             ref="5 (C07)"),
})
