"""EndBlock.tla : C07 (block processing never halts)"""
import json, os
import specs, vlib
from specs import graph_property
from vlib import Infra, log

ENDBLOCK_RESET = dict(name="Reset", o="none", k="none", n=0, res="ok")

ENDBLOCK_FORMULAS = dict(
    invariants=["C07_Sane"],
    properties=["C07_TickNeverFails", "C07_OfflineExactly", "C07_OnlineChangedOnlyBy", "C07_PowerChangedOnlyBy", "C07_Cursors", "C07_PowerRefreshed",
                "C07_SetRequest", "C07_SetsOnlyByTick", "C07_Pruning", "C07_GovResolved"],
    p_properties=["P_C07_TickNeverFails", "P_C07_OfflineExactly", "P_C07_OnlineChangedOnlyBy", "P_C07_PowerChangedOnlyBy", "P_C07_Cursors", "P_C07_PowerRefreshed",
                  "P_C07_SetRequest", "P_C07_SetsOnlyByTick", "P_C07_Pruning", "P_C07_GovResolved"])

STAKES = {"Stake2": {"o1": 4, "o2": 1}, "Stake3": {"o1": 5, "o2": 4, "o3": 1}, "StakeEq": {"o1": 1, "o2": 1, "o3": 1},
          "StakeBig": {"o1": 500, "o2": 300, "o3": 225},
          "StakeSub": {"o1": 40, "o2": 8, "o3": 6}}   # tenths of a power unit (Unit = 10): o2, o3 have power 0
O1, O2, O3 = ["o1"], ["o1", "o2"], ["o1", "o2", "o3"]
GOVKINDS = ["dep", "YY", "NN", "NY", "VV", "AA", "-A", "AY", "--", "W", "bad", "exp"]   # vote patterns of the two validators, see EndBlock.tla
GOVFEW = ["dep", "YY", "AA", "exp"]
DEP, VOT, EXP = 2, 3, 1   # gov periods in blocks


def consts(oracles, *, w=2, kinds=(), sets=2, batch=0, call=0, obs=(), ticks=(1,), removable=(), propkind=(), props=0, adds=(), maxadds=0,
           unit=1, thr0=None, thrs=(), multiple=1000):
    """unit: stake units per power unit (Stake / AddSizes / thresholds are in stake units); thr0: initial delegate threshold
    (default one power unit); thrs: thresholds governance may set; multiple: DelegateMultiple"""
    return dict(Oracle=oracles, Unit=unit, Threshold0=unit if thr0 is None else thr0, Thresholds=list(thrs), Multiple=multiple,
                AddSizes=list(adds), MaxAdds=maxadds, W=w, Kinds=list(kinds), MaxSets=sets, MaxBatch=batch, MaxCall=call, ObsSets=list(obs),
                Ticks=list(ticks), Removable=list(removable), PropKind=list(propkind), MaxProps=props,
                DepositBlocks=DEP, VotingBlocks=VOT, ExpBlocks=EXP)


def harness(chain, oracles, stake, w=2, unit=1, thr0=1, multiple=1000):
    return dict(chain=chain, Oracle=oracles, Stake=STAKES[stake], W=w, Unit=unit, Threshold0=thr0, Multiple=multiple,
                DepositBlocks=DEP, VotingBlocks=VOT, ExpBlocks=EXP)


def cfg(name, tiers, c, stake, chains, **kw):
    d = dict(name=name, tiers=tiers, consts=c, overrides={"Stake": stake},
             harness=[harness(ch, c["Oracle"], stake, c["W"], c["Unit"], c["Threshold0"], c["Multiple"]) for ch in chains], shards=kw.pop("shards", 14),
             rej_sample=kw.pop("rej_sample", 0))
    d.update(kw)
    return d


# what each configuration is about
C_CALL = consts(O2, kinds=["call"], sets=2, call=1, removable=["o2"], ticks=(1, 3))   # outgoing bridge call past the window
C_BATCH = consts(O2, kinds=["batch"], sets=2, batch=1, removable=["o2"])               # batch past the window
C_PRUNE = consts(O2, sets=3, obs=[1, 2, 3], removable=["o2"])                          # oracle sets: slashing, refresh, pruning
C_GOV = consts(O1, sets=1, propkind=GOVKINDS, props=1)                                 # gov end-blocker: every vote pattern
C_GOV2 = consts(O1, sets=1, propkind=GOVFEW, props=2)                                  # two proposals interleaved
# small stake changes between block ends (real MsgAddDelegate): +1 unit (100 FX) on 500/300 moves the normalised
# powers by 0.094% (o1) / 0.156% (o2), +120 on o1 by 9.78%, +126 by 10.2% (oracle-set request threshold 10%)
C_STAKE = consts(O2, sets=2, adds=[1, 120, 126], maxadds=1)
C_STAKE2 = consts(O2, sets=2, adds=[1, 120, 126], maxadds=2)
# stakes below one power unit: stake unit = 1/10 power unit, o1 stakes 40 (4 power units), o2 8 (power 0; it can bond
# only once governance has lowered the delegate threshold from 10 to 1); +2 lifts o2 to one power unit, is too much for
# o1 while the threshold is 1 (maximum 1 * 41) and does not change o1's power otherwise (and is below the 80% penalty a
# slashed oracle would have to pay first: see ASSUMPTIONS).  States in which every online oracle has power 0 (no oracle
# set can be formed) are reached by bonding o2 alone and by o1 being slashed while o2 (bonded later) stays online.
C_SUB = consts(O2, unit=10, thr0=10, thrs=[1, 10], multiple=41, sets=2, adds=[2], maxadds=1, removable=["o2"])
C_DEV = consts(O2, kinds=["call"], sets=1, call=1)
# thorough only
C_BOTH = consts(O2, kinds=["batch", "call"], sets=2, batch=1, call=1, removable=["o2"])   # all three object kinds together
C_THREE = consts(O3, kinds=["call"], sets=2, call=1)                                      # three oracles 5/4/1
C_CALL2 = consts(O2, kinds=["call"], sets=2, call=2, removable=["o2"])                    # two bridge calls (cursor restarts AT the last nonce)
C_BATCH2 = consts(O2, kinds=["batch"], sets=2, batch=2, removable=["o2"])                 # two batches (block-height cursor)
C_W3 = consts(O2, w=3, kinds=["call"], sets=2, call=1, removable=["o2"], ticks=(1, 2))    # SignedWindow 3
C_GOVALL2 = consts(O1, sets=1, propkind=GOVKINDS, props=2)
C_GOV3 = consts(O1, sets=1, propkind=GOVFEW + ["bad", "NN"], props=3)
C_STAKE3 = consts(O3, sets=2, adds=[1, 30], maxadds=1)
C_SUB3 = consts(O3, unit=10, thr0=10, thrs=[1], multiple=41, sets=2, adds=[2], maxadds=1)   # one regular oracle, two below one power unit

Q, T, QT = ["quick"], ["thorough"], ["quick", "thorough"]
ENDBLOCK_MC = [
    dict(name="mcdev", tiers=["dev"], consts=C_DEV, overrides={"Stake": "Stake2"}),
    dict(name="mcdevgov", tiers=["dev"], consts=C_GOV, overrides={"Stake": "Stake2"}),
    dict(name="mcdevstake", tiers=["dev"], consts=C_STAKE, overrides={"Stake": "StakeBig"}),
    dict(name="mcdevsub", tiers=["dev"], consts=C_SUB, overrides={"Stake": "StakeSub"}),
    dict(name="mcsub", tiers=QT, consts=C_SUB, overrides={"Stake": "StakeSub"}),
    dict(name="mccall", tiers=QT, consts=C_CALL, overrides={"Stake": "Stake2"}),
    dict(name="mcbatch", tiers=QT, consts=C_BATCH, overrides={"Stake": "Stake2"}),
    dict(name="mcprune", tiers=QT, consts=C_PRUNE, overrides={"Stake": "Stake2"}),
    dict(name="mcgov", tiers=QT, consts=C_GOV, overrides={"Stake": "Stake2"}),
    dict(name="mcgov2", tiers=QT, consts=C_GOV2, overrides={"Stake": "Stake2"}),
    dict(name="mcstake", tiers=QT, consts=C_STAKE, overrides={"Stake": "StakeBig"}),
    dict(name="mcgovall2", tiers=T, consts=C_GOVALL2, overrides={"Stake": "Stake2"}),
    dict(name="mcstake2", tiers=T, consts=C_STAKE2, overrides={"Stake": "StakeBig"}),
    dict(name="mcstake3", tiers=T, consts=C_STAKE3, overrides={"Stake": "StakeBig"}),
    dict(name="mcsub3", tiers=T, consts=C_SUB3, overrides={"Stake": "StakeSub"}),
    dict(name="mcboth", tiers=T, consts=C_BOTH, overrides={"Stake": "Stake2"}),
    dict(name="mcthree", tiers=T, consts=C_THREE, overrides={"Stake": "Stake3"}),
    dict(name="mccall2", tiers=T, consts=C_CALL2, overrides={"Stake": "Stake2"}),
    dict(name="mcbatch2", tiers=T, consts=C_BATCH2, overrides={"Stake": "Stake2"}),
    dict(name="mcw3", tiers=T, consts=C_W3, overrides={"Stake": "Stake2"}),
    dict(name="mcgov3", tiers=T, consts=C_GOV3, overrides={"Stake": "Stake2"}),
]
ALL3 = ["eth", "tron", "bsc"]
ENDBLOCK_GEN = [
    cfg("gendev", ["dev"], C_DEV, "Stake2", ["eth"], shards=8),
    cfg("gendevgov", ["dev"], C_GOV, "Stake2", ["eth"], shards=8),
    cfg("gendevstake", ["dev"], C_STAKE, "StakeBig", ["eth"], shards=8),
    cfg("gendevsub", ["dev"], C_SUB, "StakeSub", ["eth"], shards=8),
    # quick: eth, rejected operations sampled
    cfg("gencall", Q, C_CALL, "Stake2", ["eth"], rej_sample=3),
    cfg("genbatch", Q, C_BATCH, "Stake2", ["eth"], rej_sample=3),
    cfg("genprune", Q, C_PRUNE, "Stake2", ["eth"], rej_sample=3),
    cfg("gengov", Q, C_GOV, "Stake2", ["eth"], rej_sample=3),
    cfg("gengov2", Q, C_GOV2, "Stake2", ["eth"], rej_sample=3),
    cfg("genstake", Q, C_STAKE, "StakeBig", ["eth"], rej_sample=3),
    cfg("gensub", Q, C_SUB, "StakeSub", ["eth"], rej_sample=3),
    # thorough: the same graphs with every rejected operation, on three chain modules (tron: own address format,
    # signature prefix and checkpoint encoders), plus the larger configurations (two batches and three proposals are
    # model-checked only: mcbatch2, mcgov3)
    cfg("gencallT", T, C_CALL, "Stake2", ALL3),
    cfg("genbatchT", T, C_BATCH, "Stake2", ALL3),
    cfg("genpruneT", T, C_PRUNE, "Stake2", ALL3),
    cfg("gengovT", T, C_GOVALL2, "Stake2", ["eth"], rej_sample=2),
    cfg("genstakeT", T, C_STAKE2, "StakeBig", ["eth", "tron"], rej_sample=3),
    cfg("genstake3", T, C_STAKE3, "StakeBig", ["bsc"], rej_sample=1),
    cfg("gensubT", T, C_SUB, "StakeSub", ALL3),
    cfg("gensub3", T, C_SUB3, "StakeSub", ["tron"], rej_sample=2),
    cfg("genboth", T, C_BOTH, "Stake2", ["eth"], rej_sample=2),
    cfg("genthree", T, C_THREE, "Stake3", ["tron"], rej_sample=1),
    cfg("gencall2", T, C_CALL2, "Stake2", ["bsc"], rej_sample=2),
    cfg("genw3", T, C_W3, "Stake2", ["eth"]),
]

ASSUMPTIONS = [
    "heights are relative: the abstraction reports min(currentHeight - creationHeight, W+1) per object and 'joined at or before the object' per (oracle, object); the code only compares height differences",
    "SignedWindow is set to 2 (its minimum) by the real MsgUpdateParams so that objects age beyond the window within a few real end-blockers; gov periods are 2/3/1 blocks, quorum 60% (so that one of the two validators alone is below quorum)",
    "normalised oracle-set powers are compared at 20 bits (store value / 4096); stake additions are chosen >= 10^-3 away from the 10% update threshold",
    "stakes are whole numbers of stake units (1 power unit = 100 FX = Unit stake units; Unit = 10 in the sub-unit configurations, where governance moves DelegateThreshold between 1 power unit and 1/10 power unit by the real MsgUpdateParams and DelegateMultiple is 41); stake additions are smaller than the 80% penalty of the oracle that makes them",
    "an observed oracle-set update is applied at keeper level (UpdateOracleSetExecuted, what an observed MsgOracleSetUpdatedClaim executes); the FX bridge token and the observed external height are set at keeper level; claim attestation is Attest.tla's subject",
    "batches are never executed/cancelled and bridge calls never answered in this model (their deletion happens in claim handling, not at block end); slashed/removed oracles do not come back online (MsgAddDelegate is used by online oracles only: a slashed one would have to pay 80% of its stake first) and do not unbond",
    "graph replay calls the application's real EndBlocker / PreBlocker / BeginBlocker on branches of the multistore; TestBlocks replays sampled paths through real FinalizeBlock+Commit and compares",
]


# ---- linear replay through REAL blocks -----------------------------------------------------------------
# everything together (all object kinds, observed updates, removal, all proposal kinds): too large to enumerate,
# so TLC *simulates* behaviours of the specification (random walks, EdgeDump prints every step) and TestBlocks
# walks the printed sub-graph
C_BLOCKS = consts(O2, kinds=["batch", "call"], sets=3, batch=1, call=1, obs=[1, 2], removable=["o2"], ticks=(1, 3),
                  propkind=GOVKINDS, props=2, adds=[1], maxadds=1)
BLOCK_SIM = {"dev": 60, "quick": 150, "thorough": 600}    # simulated behaviours (depth 24)
BLOCK_PATHS = {"dev": 6, "quick": 8, "thorough": 12}      # paths per process
BLOCK_PROCS = {"dev": 1, "quick": 3, "thorough": 4}       # processes per chain
BLOCK_CHAINS = {"dev": ["eth"], "quick": ["eth"], "thorough": ["eth", "tron", "bsc"]}


def blocks_recorder(work, binary):
    """Sampled behaviours of the specification are executed on fresh chains through REAL FinalizeBlock+Commit
    (TestBlocks) and, on a branch of the same chain, through the block-boundary emulation graph replay uses; the two
    must agree step by step (else exit 2); the real-block behaviours are handed to TLC with the graph-replay traces."""
    tier = work.tier
    c = dict(name="blocks", consts=C_BLOCKS, overrides={"Stake": "Stake2"})
    cfg_path = work.path("sim-blocks.cfg")
    vlib.write_cfg(cfg_path, init="Init", next_="Next", consts=c["consts"], overrides=c["overrides"], action_constraint="EdgeDump")
    edges = work.path("sim-blocks.out")
    r = vlib.run_tlc(work, "EndBlockMC.tla", cfg_path, edges, workers=1, timeout=600,
                     extra=["-simulate", "num=%d" % BLOCK_SIM.get(tier, 100), "-depth", "24", "-seed", str(work.seed)])
    if r["error"] or r["rc"] != 0:
        raise Infra("simulation run for the real-block replay failed: %s\n%s" % (r["error"], r["tail"][-1500:]))
    summary = dict(paths=0, steps=0, blocks=0, block_failures=0, model_mismatches=0, emulation_mismatches=0,
                   consts=C_BLOCKS, chains=BLOCK_CHAINS.get(tier, ["eth"]), simulated_behaviours=BLOCK_SIM.get(tier, 100))
    procs, traces = [], []
    nproc = BLOCK_PROCS.get(tier, 1)
    for chain in summary["chains"]:
        h = harness(chain, C_BLOCKS["Oracle"], "Stake2", C_BLOCKS["W"])
        for i in range(nproc):
            tag = "blocks-%s-%d" % (chain, i)
            env = dict(VERIF_EDGES=edges, VERIF_CONST=json.dumps(h), VERIF_SHARD=i, VERIF_SHARDS=nproc,
                       VERIF_PATHS=BLOCK_PATHS.get(tier, 6), VERIF_PATHLEN=24,
                       VERIF_TRACES=work.path(tag + ".ndjson"), VERIF_STATS=work.path(tag + ".json"))
            held = vlib.acquire_slots(1)      # blocks until a slot is free; running processes free theirs when reaped below
            procs.append([tag, h, vlib.run_harness(work, binary, "TestBlocks", env, work.path(tag + ".log")), held])
            for q in procs:
                if q[3] is not None and q[2].poll() is not None:
                    vlib.release_slots(q[3])
                    q[3] = None
    for tag, h, p, held in procs:
        rc = p.wait()
        vlib.release_slots(held)
        logtxt = open(work.path(tag + ".log"), errors="replace").read()
        if not os.path.exists(work.path(tag + ".json")):
            raise Infra("real-block replay %s failed (rc=%s):\n%s" % (tag, rc, logtxt[-3000:]))
        st = json.load(open(work.path(tag + ".json")))
        if st["emulation_mismatches"]:
            raise Infra("branch emulation of block boundaries disagrees with real FinalizeBlock+Commit (%s):\n%s"
                        % (tag, st["first_emulation_mismatch"][:3000]))
        if rc != 0:
            raise Infra("real-block replay %s failed (rc=%s):\n%s" % (tag, rc, logtxt[-3000:]))
        for k in ("paths", "steps", "blocks", "block_failures", "model_mismatches", "emulation_mismatches"):
            summary[k] += st[k]
        if st["first_block_failure"] and "first_block_failure" not in summary:
            summary["first_block_failure"] = st["first_block_failure"][:600]
        if st["first_model_mismatch"] and "first_model_mismatch" not in summary:
            summary["first_model_mismatch"] = st["first_model_mismatch"][:1500]
        traces.append((work.path(tag + ".ndjson"), None, c, h))
    os.remove(edges)
    log("real blocks: %(paths)d paths, %(steps)d steps, %(blocks)d FinalizeBlock+Commit, %(block_failures)d failed blocks, "
        "%(model_mismatches)d steps differ from the specification, %(emulation_mismatches)d from the branch emulation" % summary)
    if summary.get("first_block_failure"):
        log("  first failed block:", summary["first_block_failure"])
    if summary["model_mismatches"]:
        log("NOTE: real blocks deviate from the specification:", summary.get("first_model_mismatch", "")[:1200])
    return dict(traces=traces, summary=summary)


def run(work, args):
    return graph_property(
        work, args, pid="C07", module="EndBlock", mcmodule="EndBlockMC", pkg="endblock", formulas=ENDBLOCK_FORMULAS,
        mc_cfgs=ENDBLOCK_MC, gen_cfgs=ENDBLOCK_GEN, reset_op=ENDBLOCK_RESET, level_note="", design_ref="5/C07",
        assumptions=ASSUMPTIONS, recorder=dict(tiers=["dev", "quick", "thorough"], run=blocks_recorder))


specs.REGISTRY["C07"] = run

specs.MANIFEST.update({
 "C07": dict(category="model_checking",
             technique="TLA+ spec EndBlock.tla: TLC exhaustive model check + replay of every TLC-generated transition (incl. Tick = the application's real EndBlocker/BeginBlocker) on the real application + sampled paths through real FinalizeBlock+Commit + TLC evaluation of the C07 formulas on recorded real behaviours",
             text="EndBlock.tla models the end-of-block logic of one bridge module (slashing of oracle sets / batches / outgoing bridge calls with their three cursors and the start-height exemption, the oracle-set request rule, pruning) and the gov end-blocker; Tick is a total action without error outcome. TLC checks the C07 formulas on all interleavings of bonding (including stakes below one power unit, i.e. online oracles with power 0, after governance lowered the delegate threshold), stake additions, governance removal, object creation, confirmations (real secp256k1 signatures), observed set updates, proposals and block ends; every generated transition is executed on branches of the real multistore with the application's real EndBlocker/BeginBlocker (panics and errors are the violation), the projected state compared after each step; the formulas are then evaluated by TLC on the recorded real behaviours.",
             note="bounded: 1-3 oracles, stakes of 0.6-500 power units, <=3 oracle sets, <=2 batches/bridge calls, <=2 proposals, SignedWindow 2 (3 in thorough); eth (thorough: tron, bsc); objects are not executed/cancelled; oracles do not re-activate; trusted: TLC, the abstraction function (raw store reads), branch emulation of block boundaries (cross-checked against real FinalizeBlock+Commit on sampled paths)",
             ref="5 (C07)"),
})
