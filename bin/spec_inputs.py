"""Fee.tla + Inputs.tla : C20 (hostile input never crashes a node and cannot dodge the minimum fee)

Custom check (not graph replay), same rule as the family: TLC enumerates the cases from an explicit
TLA+ specification, the real code is run on every case, the specification decides the expected
outcome, and only a property formula that TLC finds false on a RECORDED REAL outcome is a violation.

 (a) Fee.tla      every (node configuration, transaction) of the family -> real signed transaction ->
                  real CheckTx of an application constructed with that configuration (+ the fee checker
                  that application installs); TLC evaluates C20_NoDodge / C20_FeeRule on every real outcome.
 (b) Inputs.tla   field tables generated from the real descriptors; per type the pairwise (quick) /
                  full-where-<10^5 (thorough) product of value classes, call-data truncations and
                  offset/length word replacements -> real decoder, ValidateBasic, CheckTx, precompile
                  Run through an EVM transaction, string parsers; TLC evaluates C20_NeverPanics on every
                  recorded panic and a sample of the other outcomes.
"""
import json, os, time, threading
import specs, vlib
from vlib import Infra, log

T1 = "/cosmos.distribution.v1beta1.MsgSetWithdrawAddress"
T2 = "/cosmos.distribution.v1beta1.MsgWithdrawDelegatorReward"
T3 = "/cosmos.bank.v1beta1.MsgSend"

FEE_FORMULAS = ["C20_NoDodge", "C20_FeeRule"]
INPUT_FORMULAS = ["C20_NeverPanics"]

TIERS = {
    "dev": dict(fee=dict(MaxLen=1, Prices="PricesDev", shards=2), inputs=dict(Mode="pairwise", shards=4, tlc_parts=4, sample_every=50)),
    "quick": dict(fee=dict(MaxLen=3, Prices="PricesDef", shards=6), inputs=dict(Mode="pairwise", shards=8, tlc_parts=6, sample_every=50)),
    "thorough": dict(fee=dict(MaxLen=3, Prices="PricesDef", shards=6), inputs=dict(Mode="full", shards=12, tlc_parts=10, sample_every=200)),
}

ASSUMPTIONS = [
    "scope: structured, specification-generated inputs (value classes per field kind, pairwise/full products, call-data truncations and offset/length word replacements); NOT byte-level fuzzing - arbitrary byte strings outside these classes are not enumerated",
    "fee part: the node is the real application built by app.New from an app.toml rendered with the repository's own template and parsed by viper, minimum gas price installed with baseapp.SetMinGasPrices as cmd/root.go does; one validator, one committed block; messages are distribution MsgSetWithdrawAddress / MsgWithdrawDelegatorReward (exemptable) and bank MsgSend (never exempt)",
    "fee part: the complete CheckTx can refuse a transaction for reasons other than the fee (no messages, gas limit below what the ante handler itself consumes, gas limit above the block limit); for those cases only the installed fee checker (reconstructed from the same application options exactly as app.go:setAnteHandler does) is observed, and only for 0 < gas <= MaxGasWanted, the range for which the SDK's DeductFeeDecorator consults it",
    "fee part: gas and fee values are bounded by TLC's 32-bit integers (very large gas = 4*10^8, above the block gas limit); a single fee denomination per transaction (the priced one or another one); one minimum gas price denomination",
    "inputs part: messages are built at wire level from the real descriptors (dynamic protobuf), decoded by the application's real codec, validated by the real ValidateBasic; those that pass are offered to the real CheckTx in a signed transaction (claims wrapped in MsgClaim, legacy proposal contents in gov v1beta1 MsgSubmitProposal); on this tree MsgClaim/MsgConfirm never pass ValidateBasic after wire decoding (their Any is not unpacked), so claims reach the ante handler only as rejected wrappers",
    "inputs part: precompile call data is sent to the real precompile address in a real signed EVM transaction executed by the EVM keeper on a discarded branch of a one-validator chain; a panic is recovered only to be reported",
    "inputs part: the transaction envelope (cosmos.tx.v1beta1 TxBody, AuthInfo, TxRaw - what fx-core's ante handler reads) is enumerated with the same value classes around a valid signed bank send",
    "inputs part: outcome 'panic' = a panic escaping an fx-core function (ValidateBasic, parsers, precompile through the EVM) or a panic the application recovered (ErrPanic from CheckTx) whose original raise site is in the repository's source (attributed from the stack the application logs); a panic raised inside a dependency (cosmos-sdk) and converted into an error by fx-core's ante handler (its deferred Recover) counts as a rejection and is listed under recovered_dependency_panics",
    "inputs part: message handlers (execution after check-tx) are out of scope of this property",
    "trusted: TLC, protobuf-go dynamicpb encoding, go-ethereum ABI packer for the well-formed parts of call data",
]


def _tla(v):
    if isinstance(v, bool):
        return "TRUE" if v else "FALSE"
    if isinstance(v, int):
        return str(v)
    if isinstance(v, str):
        return json.dumps(v)
    if isinstance(v, list):
        return "<<" + ", ".join(_tla(x) for x in v) + ">>"
    if isinstance(v, dict):
        return "[" + ", ".join("%s |-> %s" % (k, _tla(x)) for k, x in v.items()) + "]"
    raise ValueError(v)


def _phase(work, label):
    log("[%5.0fs] %s" % (time.time() - work.t0, label))


def _cases_from_tlc(out_file, dest, dedupe=True):
    """Extracts the JSON of every <<"CASE", "...">> line TLC printed; returns the count."""
    seen, n = set(), 0
    with open(out_file, errors="replace") as f, open(dest, "a") as o:
        for line in f:
            if line.startswith('<<"CASE", '):
                s = json.loads(line.rstrip("\n")[len('<<"CASE", '):-2])
                if dedupe:
                    if s in seen:
                        continue
                    seen.add(s)
                o.write(s + "\n")
                n += 1
    return n


def _run_shards(work, binary, test, nshards, env_of, tag, timeout=3000):
    """Runs `test` in nshards parallel processes under the slot throttle."""
    pending, running = list(range(nshards)), {}
    while pending or running:
        while pending:
            held = vlib.acquire_slots(1, block=not running)
            if held is None:
                break
            i = pending.pop(0)
            running[i] = (vlib.run_harness(work, binary, test, env_of(i), work.path("%s-%d.log" % (tag, i)), timeout=timeout), held)
        done = [i for i, (p, _) in running.items() if p.poll() is not None]
        if not done:
            time.sleep(0.2)
            continue
        for i in done:
            p, held = running.pop(i)
            vlib.release_slots(held)
            if p.returncode != 0:
                for q, h in running.values():
                    q.kill()
                    vlib.release_slots(h)
                tail = open(work.path("%s-%d.log" % (tag, i)), errors="replace").read()[-3000:]
                if "INCOMPLETE" in tail:
                    raise Infra("incomplete: the harness has no generator for something the specification enumerates:\n" + tail)
                raise Infra("%s shard %d failed (rc=%s):\n%s" % (test, i, p.returncode, tail))


# =====================================================================================================
# part (a): fee rule
# =====================================================================================================
def fee_consts(cfg):
    return dict(T1=T1, T2=T2, T3=T3, Allowances=[0, 100000], A=100000, MaxLen=cfg["MaxLen"], Huge=400000000, MaxGasWanted=2147483647)


def fee_generate(work, cfg, ev):
    consts = fee_consts(cfg)
    over = {"ExemptSets": "ExemptSetsDef", "Prices": cfg["Prices"]}
    mc = work.path("fee-mc.cfg")
    vlib.write_cfg(mc, spec="Spec", consts=consts, overrides=over, invariants=FEE_FORMULAS + ["C20_Sane"])
    r = vlib.run_tlc(work, "FeeMC.tla", mc, work.path("fee-mc.out"), workers=2, timeout=1500)
    if r["violated"] or r["error"] or r["rc"] != 0:
        raise Infra("Fee.tla violates its own formulas (model error): %s\n%s" % (r["violated"] or r["error"], r["tail"][-1500:]))
    log("TLC model check Fee: %d distinct states, %.0fs" % (r["distinct"], r["wall"]))
    ev["states"] += r["distinct"]
    ev["transitions"] += r["generated"]
    gen = work.path("fee-gen.cfg")
    vlib.write_cfg(gen, init="Init", next_="Next", consts=consts, overrides=over, action_constraint="CaseDump")
    r = vlib.run_tlc(work, "FeeMC.tla", gen, work.path("fee-gen.out"), workers=1, timeout=1500)
    if r["error"] or r["rc"] != 0:
        raise Infra("Fee generation failed: %s\n%s" % (r["error"], r["tail"][-1500:]))
    cases = work.path("fee-cases.ndjson")
    n = _cases_from_tlc(work.path("fee-gen.out"), cases)
    os.remove(work.path("fee-gen.out"))
    log("TLC generated %d fee cases, %.0fs" % (n, r["wall"]))
    return cases, n, consts, over


def fee_run(work, binary, cases, nshards):
    _run_shards(work, binary, "TestFee", nshards,
                lambda i: dict(VERIF_CASES=cases, VERIF_OUT=work.path("fee-out-%d.ndjson" % i), VERIF_STATS=work.path("fee-stats-%d.json" % i),
                               VERIF_SHARD=i, VERIF_SHARDS=nshards), "fee")
    counts, first_dis, first_other, cfgs = {}, "", "", 0
    for i in range(nshards):
        st = json.load(open(work.path("fee-stats-%d.json" % i)))
        cfgs += st["cfgs"]
        for k, v in st["counts"].items():
            counts[k] = counts.get(k, 0) + v
        first_dis = first_dis or st["first_disagreement"]
        first_other = first_other or st["first_unexpected_other"]
    return counts, cfgs, first_dis, first_other, [work.path("fee-out-%d.ndjson" % i) for i in range(nshards)]


def fee_evaluate(work, outs, consts, over, spec_lines):
    """TLC evaluates the fee formulas on every recorded real outcome.  Outcomes that disagree with the verdict
    TLC printed for the case are put first so that a counterexample trace stays short."""
    expect = {}
    with open(spec_lines) as f:
        for line in f:
            d = json.loads(line)
            expect[json.dumps(d["case"], sort_keys=True)] = (d["admit"], d["rule"])
    first, rest = [], []
    for o in outs:
        with open(o) as f:
            for line in f:
                d = json.loads(line)
                adm, rule = expect[json.dumps(d["case"], sort_keys=True)]
                want = "admitted" if adm else "insufficient_fee"
                ok = d["real"]["rule"] == rule and d["real"]["checktx"] in (want, "other")
                (rest if ok else first).append(line)
    nd = work.path("fee-prop.ndjson")
    with open(nd, "w") as o:
        o.writelines(first)
        o.writelines(rest)
    cfg = work.path("fee-prop.cfg")
    c = dict(consts)
    c["TraceFile"] = nd
    vlib.write_cfg(cfg, spec="PSpec", consts=c, overrides=over, invariants=FEE_FORMULAS, postcondition="Consumed")
    r = vlib.run_tlc(work, "FeeProp.tla", cfg, work.path("fee-prop.out"), workers=1, timeout=1500)
    lines = first + rest
    log("TLC evaluated %s on %d real check-tx outcomes (%d disagree with the generated verdict): %s"
        % (", ".join(FEE_FORMULAS), len(lines), len(first), "VIOLATED " + r["violated"] if r["violated"] else "hold"))
    viol = None
    if r["violated"]:
        l = (r["last_l"] or 2) - 1
        viol = dict(part="fee", formula=r["violated"], line=json.loads(lines[l - 1]))
    elif r["error"] or r["postcondition_failed"] or r["rc"] != 0:
        raise Infra("evaluation of the fee formulas on real outcomes failed: %s\n%s" % (r["error"], r["tail"][-1500:]))
    return viol, len(lines), len(first), [json.loads(x) for x in (first[:2] + rest[:1] + rest[len(rest) // 2:len(rest) // 2 + 1])]


# =====================================================================================================
# part (b): inputs
# =====================================================================================================
def inputs_dump(work, binary):
    out = work.path("inputs-dump.json")
    held = vlib.acquire_slots(1)
    try:
        p = vlib.run_harness(work, binary, "TestDump", dict(VERIF_OUT=out), work.path("inputs-dump.log"))
        rc = p.wait()
    finally:
        vlib.release_slots(held)
    if rc != 0 or not os.path.exists(out):
        raise Infra("table dump failed:\n" + open(work.path("inputs-dump.log"), errors="replace").read()[-3000:])
    d = json.load(open(out))
    if d.get("missing"):
        raise Infra("incomplete: registered fx-core inputs without generator / value classes:\n  " + "\n  ".join(d["missing"]))
    return d


def inputs_write_table(work, table):
    rows = [_tla(dict(name=e["name"], group=e["group"], fields=[dict(path=f["path"], kind=f["kind"]) for f in (e.get("fields") or [])],
                      nwords=e["nwords"], dynwords=e.get("dynwords") or [])) for e in table]
    for mod, ext in (("InputsData", "Inputs"), ("InputsPropData", "InputsProp")):
        with open(work.path(mod + ".tla"), "w") as f:
            f.write("---- MODULE %s ----\n(* generated for this run from the real descriptors (harness TestDump) *)\nEXTENDS %s\nTableDef == <<\n  %s\n>>\n====\n"
                    % (mod, ext, ",\n  ".join(rows)))


def inputs_generate(work, table, cfg, ev):
    """Parallel TLC generation runs over slices of the table (weights ~ number of cases)."""
    n = len(table)
    parts = min(cfg["tlc_parts"], n)
    # contiguous slices with roughly equal field-count weight
    w = [max(1, len(e.get("fields") or [])) ** 2 for e in table]
    tot, bounds, acc, lo = sum(w), [], 0, 1
    for i, x in enumerate(w, 1):
        acc += x
        if acc >= tot * (len(bounds) + 1) / parts and len(bounds) < parts - 1:
            bounds.append((lo, i))
            lo = i + 1
    bounds.append((lo, n))
    bounds = [b for b in bounds if b[0] <= b[1]]
    results, errors = [None] * len(bounds), []

    def one(k, lo, hi):
        try:
            c = work.path("inputs-gen-%d.cfg" % k)
            vlib.write_cfg(c, init="Init", next_="Next", consts=dict(Mode=cfg["Mode"], Limit=100000, TLo=lo, THi=hi), overrides={"Table": "TableDef"},
                           action_constraint="CaseDump", invariants=INPUT_FORMULAS)
            results[k] = vlib.run_tlc(work, "InputsData.tla", c, work.path("inputs-gen-%d.out" % k), workers=1, timeout=2400)
        except Exception as e:  # noqa
            errors.append(e)

    ths = [threading.Thread(target=one, args=(k, lo, hi)) for k, (lo, hi) in enumerate(bounds)]
    t0 = time.time()
    for t in ths:
        t.start()
    for t in ths:
        t.join()
    if errors:
        raise errors[0]
    cases = work.path("inputs-cases.ndjson")
    total = 0
    for k, r in enumerate(results):
        if r["violated"] or r["error"] or r["rc"] != 0:
            if r["error"] and "TableComplete" in (r["tail"] or ""):
                raise Infra("incomplete: a field kind dumped from the real descriptors has no value classes in Inputs.tla:\n" + r["tail"][-1500:])
            raise Infra("Inputs generation run %d failed: %s\n%s" % (k, r["violated"] or r["error"], r["tail"][-1500:]))
        ev["states"] += r["distinct"]
        ev["transitions"] += r["generated"]
        total += _cases_from_tlc(work.path("inputs-gen-%d.out" % k), cases)
        os.remove(work.path("inputs-gen-%d.out" % k))
    log("TLC generated %d input cases for %d types (%s, %d parallel runs), %.0fs" % (total, n, cfg["Mode"], len(bounds), time.time() - t0))
    return cases, total


def inputs_run(work, binary, cases, cfg):
    ns = cfg["shards"]
    _run_shards(work, binary, "TestInputs", ns,
                lambda i: dict(VERIF_CASES=cases, VERIF_OUT=work.path("inputs-out-%d.ndjson" % i), VERIF_STATS=work.path("inputs-stats-%d.json" % i),
                               VERIF_SHARD=i, VERIF_SHARDS=ns, VERIF_SAMPLE_EVERY=cfg["sample_every"]), "inputs")
    types, panics, recovered, executed = {}, {}, {}, 0
    for i in range(ns):
        d = json.load(open(work.path("inputs-stats-%d.json" % i)))
        executed += d["executed"]
        for k, v in d["types"].items():
            t = types.setdefault(k, dict(Cases=0, Accept=0, Reject=0, Panic=0, PassedVB=0, RecoveredDep=0))
            for x in t:
                t[x] += v[x]
        for src, book in ((d["panics"], panics), (d.get("recovered_dependency_panics") or {}, recovered)):
            for k, v in src.items():
                p = book.get(k)
                if p is None or v["nonvalid_fields"] < p["nonvalid_fields"]:
                    v["count"] += p["count"] if p else 0
                    book[k] = v
                else:
                    p["count"] += v["count"]
    return types, panics, recovered, executed, [work.path("inputs-out-%d.ndjson" % i) for i in range(ns)]


def inputs_evaluate(work, outs, mode, extra_first=()):
    """TLC evaluates C20_NeverPanics on every recorded panic (first) and the sampled other outcomes."""
    first, rest = list(extra_first), []
    for o in outs:
        with open(o) as f:
            for line in f:
                d = json.loads(line)
                (rest if d["real"]["outcome"] in ("accept", "reject") else first).append(line)
    first.sort(key=lambda l: (sum(1 for c in json.loads(l)["case"]["cls"] if c != "valid"), l))
    nd = work.path("inputs-prop.ndjson")
    with open(nd, "w") as o:
        o.writelines(first)
        o.writelines(rest)
    cfg = work.path("inputs-prop.cfg")
    vlib.write_cfg(cfg, spec="PSpec", consts=dict(Mode=mode, Limit=100000, TLo=1, THi=1, TraceFile=nd), overrides={"Table": "TableDef"},
                   invariants=INPUT_FORMULAS, postcondition="Consumed")
    r = vlib.run_tlc(work, "InputsPropData.tla", cfg, work.path("inputs-prop.out"), workers=1, timeout=1500)
    lines = first + rest
    log("TLC evaluated C20_NeverPanics on %d real outcomes (%d recorded panics): %s" % (len(lines), len(first), "VIOLATED" if r["violated"] else "holds"))
    viol = None
    if r["violated"]:
        l = (r["last_l"] or 2) - 1
        viol = dict(part="inputs", formula=r["violated"], line=json.loads(lines[l - 1]))
    elif r["error"] or r["postcondition_failed"] or r["rc"] != 0:
        raise Infra("evaluation of C20_NeverPanics on real outcomes failed: %s\n%s" % (r["error"], r["tail"][-1500:]))
    return viol, len(lines), [json.loads(x) for x in (first[:2] + rest[:2])]


def _mutated(table_by_name, case):
    e = table_by_name.get(case["type"])
    if not e or case.get("fam") != "fields":
        return {}
    return {f["path"]: c for f, c in zip(e.get("fields") or [], case["cls"]) if c != "valid"}


# =====================================================================================================
def check(work, args):
    if getattr(args, "replay", None):
        return replay(work, args.replay)
    tier = work.tier if work.tier in TIERS else "quick"
    T = TIERS[tier]
    ev = dict(states=0, transitions=0, traces_validated_against_impl=0, samples=[], formulas=FEE_FORMULAS + INPUT_FORMULAS)
    box = {}

    def build():
        try:
            box["binary"] = vlib.build(work, "inputs")
            box["dump"] = inputs_dump(work, box["binary"])
        except Exception as e:  # noqa
            box["err"] = e

    th = threading.Thread(target=build)
    th.start()
    try:
        fee_cases, n_fee, fconsts, fover = fee_generate(work, T["fee"], ev)
    finally:
        th.join()
    if "err" in box:
        raise box["err"]
    binary, dump = box["binary"], box["dump"]
    _phase(work, "harness built, tables dumped, fee cases generated")
    table = dump["table"]
    by_name = {e["name"]: e for e in table}
    inputs_write_table(work, table)

    # generation of the input cases runs while the fee cases execute
    gen = {}

    def gen_inputs():
        try:
            gen["res"] = inputs_generate(work, table, T["inputs"], ev)
        except Exception as e:  # noqa
            gen["err"] = e

    tg = threading.Thread(target=gen_inputs)
    tg.start()
    try:
        counts, cfgs, first_dis, first_other, fouts = fee_run(work, binary, fee_cases, T["fee"]["shards"])
    finally:
        tg.join()
    if "err" in gen:
        raise gen["err"]
    _phase(work, "fee cases executed, input cases generated")
    log("fee: %d real transactions on %d node configurations: %s" % (counts.get("cases", 0), cfgs, json.dumps(counts, sort_keys=True)))
    if counts.get("unexpected_other"):
        raise Infra("harness: %d workable transactions were refused by CheckTx for a reason other than the fee (the run observes nothing there): %s"
                    % (counts["unexpected_other"], first_other))
    if counts.get("cases") != n_fee:
        raise Infra("fee: %d cases generated but %d executed" % (n_fee, counts.get("cases", 0)))
    for need in ("checktx_admitted", "checktx_insufficient_fee", "rule_admitted", "rule_rejected"):
        if not counts.get(need) and tier != "dev":
            raise Infra("vacuous: no real transaction ended as %s" % need)
    fviol, n_fprop, n_fdis, fsamples = fee_evaluate(work, fouts, fconsts, fover, fee_cases)

    _phase(work, "fee formulas evaluated")
    in_cases, n_in = gen["res"]
    types, panics, recovered, executed, iouts = inputs_run(work, binary, in_cases, T["inputs"])
    if executed != n_in:
        raise Infra("inputs: %d cases generated but %d executed" % (n_in, executed))
    groups = {}
    for k, v in types.items():
        g = groups.setdefault(k.split(":")[0], dict(types=0, cases=0, accept=0, reject=0, panic=0, passed_stateless_validation=0,
                                                     rejected_by_recovered_dependency_panic=0))
        g["types"] += 1
        g["cases"] += v["Cases"]
        g["accept"] += v["Accept"]
        g["reject"] += v["Reject"]
        g["panic"] += v["Panic"]
        g["passed_stateless_validation"] += v["PassedVB"]
        g["rejected_by_recovered_dependency_panic"] += v["RecoveredDep"]
    log("inputs: %d cases on %d types: %s" % (executed, len(types), json.dumps(groups, sort_keys=True)))
    never = sorted(e["name"] for e in table if e["name"] not in types)
    if never:
        raise Infra("incomplete: no case was executed for %s" % never)
    if tier != "dev":
        for g, v in groups.items():
            if v["accept"] + v["passed_stateless_validation"] == 0:
                raise Infra("vacuous: no %s input was ever accepted" % g)
    _phase(work, "input cases executed")
    iviol, n_iprop, isamples = inputs_evaluate(work, iouts, T["inputs"]["Mode"])
    _phase(work, "C20_NeverPanics evaluated")

    plist = []
    for key, p in sorted(panics.items(), key=lambda kv: (kv[1]["nonvalid_fields"], kv[0])):
        c = json.loads(json.dumps(p["case"]))
        plist.append(dict(type=c["type"], stage=p["real"]["stage"], where=p["real"].get("where", ""), panic=p["real"]["outcome"],
                          smallest_input=p["mutated"], occurrences=p["count"], entry_point=p["real"].get("detail", ""), case=c))
    for p in plist:
        log("  PANIC %s at %s [%s]: %s  smallest input: baseline with %s (%d cases)" % (p["type"], p["where"], p["stage"], p["panic"][:80], p["smallest_input"], p["occurrences"]))

    rlist = [dict(type=json.loads(json.dumps(p["case"]))["type"], where=p["real"].get("where", ""), message=p["real"].get("detail", ""),
                  smallest_input=p["mutated"], occurrences=p["count"]) for _, p in sorted(recovered.items())]
    for r in rlist:
        log("  note: dependency panic recovered by the application and returned as an error (not a C20 violation): %s %s, smallest input %s (%d cases)"
            % (r["type"], r["where"], r["smallest_input"], r["occurrences"]))
    ev["traces_validated_against_impl"] = n_fprop + n_iprop
    ev["samples"] = fsamples[:3] + isamples[:3]
    ev["fee"] = dict(cases=n_fee, node_configurations=cfgs, outcomes=counts, disagreements_with_generated_verdict=n_fdis,
                     real_outcomes_evaluated_by_tlc=n_fprop, consts=fconsts, first_disagreement=first_dis)
    ev["inputs"] = dict(mode=T["inputs"]["Mode"], types=len(table), cases=executed, by_group=groups, real_outcomes_evaluated_by_tlc=n_iprop,
                        distinct_panics=plist, recovered_dependency_panics=rlist, baseline=dump["baseline"],
                        per_type={k: v for k, v in sorted(types.items())})
    ev["exhaustive"] = True
    ev["rule"] = ("TLC enumerates every case of Fee.tla (message lists 0..%d over three types, gas at every allowance boundary, fees around the required fee, "
                  "two fee denominations, 3 exemption settings x 2 allowances x %s prices) and of Inputs.tla (%s product of value classes per type, "
                  "call-data truncations and word replacements); each case is executed once on the real code; TLC evaluates the C20 formulas on the "
                  "recorded real outcomes" % (T["fee"]["MaxLen"], "3" if T["fee"]["Prices"] == "PricesDef" else "1", T["inputs"]["Mode"]))
    ev["scope_limit"] = "structured, specification-generated inputs; not byte-level fuzzing"

    viols = [v for v in (fviol, iviol) if v]
    if viols:
        v = viols[0]
        doc = dict(property="C20", part=v["part"], formula=v["formula"], case=v["line"]["case"], real=v["line"]["real"], tier=tier)
        if v["part"] == "inputs":
            doc["mutated"] = _mutated(by_name, v["line"]["case"])
            doc["all_distinct_panics"] = plist
        path = vlib.save_replay(work, "violation-" + v["part"], doc)
        if len(viols) > 1:
            v2 = viols[1]
            d2 = dict(property="C20", part=v2["part"], formula=v2["formula"], case=v2["line"]["case"], real=v2["line"]["real"], tier=tier,
                      mutated=_mutated(by_name, v2["line"]["case"]), all_distinct_panics=plist)
            p2 = vlib.save_replay(work, "violation-" + v2["part"], d2)
            log("also: formula %s false on a real outcome, replay=%s" % (v2["formula"], p2))
        ev["violated_formulas"] = [x["formula"] for x in viols]
        vlib.write_evidence(work, "model_checking", ev, ASSUMPTIONS, len(viols))
        log("formula %s is false on an outcome recorded from the real code: %s -> %s" % (v["formula"], json.dumps(v["line"]["case"])[:300], json.dumps(v["line"]["real"])[:300]))
        print("VIOLATION property=C20 replay=%s" % path, flush=True)
        return 1
    if n_fdis:
        log("NOTE: %d real outcomes differ from the verdict printed at generation, but no C20 formula is false on them" % n_fdis)
    vlib.write_evidence(work, "model_checking", ev, ASSUMPTIONS, 0)
    return 0


def replay(work, path):
    """--replay: re-executes exactly the saved case on the real code and lets TLC evaluate the formula again."""
    doc = json.load(open(path))
    binary = vlib.build(work, "inputs")
    if doc["part"] == "fee":
        cases = work.path("fee-cases.ndjson")
        with open(cases, "w") as f:
            f.write(json.dumps(dict(case=doc["case"], admit=True, rule="none")) + "\n")
        _run_shards(work, binary, "TestFee", 1, lambda i: dict(VERIF_CASES=cases, VERIF_OUT=work.path("fee-out-0.ndjson"), VERIF_STATS=work.path("fee-stats-0.json"),
                                                               VERIF_SHARD=0, VERIF_SHARDS=1), "fee")
        line = open(work.path("fee-out-0.ndjson")).readline()
        log("real outcome: " + line.strip()[:600])
        nd = work.path("fee-prop.ndjson")
        open(nd, "w").write(line)
        maxlen = max(3, len(doc["case"]["msgs"]))
        consts = fee_consts(dict(MaxLen=maxlen))
        consts["TraceFile"] = nd
        cfg = work.path("fee-prop.cfg")
        vlib.write_cfg(cfg, spec="PSpec", consts=consts, overrides={"ExemptSets": "ExemptSetsDef", "Prices": "PricesDef"}, invariants=FEE_FORMULAS, postcondition="Consumed")
        r = vlib.run_tlc(work, "FeeProp.tla", cfg, work.path("fee-prop.out"), workers=1)
    else:
        dump = inputs_dump(work, binary)
        table = dump["table"]
        inputs_write_table(work, table)
        by_name = {e["name"]: e for e in table}
        case = dict(doc["case"])
        e = by_name.get(case["type"])
        if e is None:
            raise Infra("the replayed type %s is no longer registered" % case["type"])
        if case.get("fam") == "fields" and "mutated" in doc:
            # field order may have changed with the tree: rebuild the class vector by field path
            case["cls"] = [doc["mutated"].get(f["path"], "valid") for f in (e.get("fields") or [])]
        cases = work.path("inputs-cases.ndjson")
        open(cases, "w").write(json.dumps(case) + "\n")
        _run_shards(work, binary, "TestInputs", 1, lambda i: dict(VERIF_CASES=cases, VERIF_OUT=work.path("inputs-out-0.ndjson"), VERIF_STATS=work.path("inputs-stats-0.json"),
                                                                  VERIF_SHARD=0, VERIF_SHARDS=1, VERIF_SAMPLE_EVERY=1), "inputs")
        line = open(work.path("inputs-out-0.ndjson")).readline()
        log("real outcome: " + line.strip()[:600])
        nd = work.path("inputs-prop.ndjson")
        open(nd, "w").write(line)
        cfg = work.path("inputs-prop.cfg")
        vlib.write_cfg(cfg, spec="PSpec", consts=dict(Mode="pairwise", Limit=100000, TLo=1, THi=1, TraceFile=nd), overrides={"Table": "TableDef"},
                       invariants=INPUT_FORMULAS, postcondition="Consumed")
        r = vlib.run_tlc(work, "InputsPropData.tla", cfg, work.path("inputs-prop.out"), workers=1)
    if r["violated"]:
        log("formula %s is false on the replayed real outcome" % r["violated"])
        print("VIOLATION property=C20 replay=%s" % path, flush=True)
        return 1
    if r["error"] or r["postcondition_failed"] or r["rc"] != 0:
        raise Infra("evaluation failed: %s\n%s" % (r["error"], r["tail"][-1500:]))
    log("all formulas hold on the replayed real outcome")
    return 0


specs.REGISTRY["C20"] = check

specs.MANIFEST.update({
 "C20": dict(category="model_checking",
             technique="TLA+ specs Fee.tla / Inputs.tla: TLC enumerates every case of an explicit finite family (fee rule: configurations x message lists x gas/fee boundaries; inputs: value-class products per field of every registered message type and precompile method, generated from the real descriptors), every case is executed on the real application (signed tx -> CheckTx of an app built with that node config; wire bytes -> real decoder, ValidateBasic, CheckTx, precompile Run in an EVM tx), TLC evaluates the C20 formulas on the recorded real outcomes",
             text="Fee.tla states the mempool fee rule from the property text (Bypass = non-empty, all messages of exempt types, gas <= n x allowance; Admit = Bypass or fee >= ceil(price x gas)); TLC enumerates 70 080 (config, transaction) cases and checks C20_NoDodge/C20_FeeRule on the real CheckTx verdict and on the installed fee checker of an application constructed from a rendered app.toml. Inputs.tla specifies validation as a total function into {accept, reject}; its field tables are generated per run from the protobuf descriptors of every registered fx-core message type and the precompile ABIs (a type or kind without generator fails the run as incomplete); TLC enumerates pairwise (quick) / full-where-<10^5 (thorough) products of value classes (nil/negative/huge integers, nil coin amounts, malformed addresses, hex, lists, Any) plus call-data truncations at every word boundary +-1 and offset/length word replacements; each case is decoded by the real codec and run through ValidateBasic, CheckTx, the precompile in a real EVM transaction, or the target/address parsers; a recovered panic is recorded and C20_NeverPanics evaluated on it by TLC.",
             note="scope: structured, specification-generated inputs, not byte-level fuzzing; fee family bounded (lists <= 3, 32-bit gas/fee, one priced denom); handlers after check-tx out of scope; trusted: TLC, dynamicpb, ABI packer", ref="5 (C20)"),
})
