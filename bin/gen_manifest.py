#!/usr/bin/env python3
"""Writes MANIFEST.json from the table below (kept next to the checks so it stays valid)."""
import json, os
V = os.path.dirname(os.path.dirname(os.path.abspath(__file__)))
import sys
sys.path.insert(0, os.path.join(V, 'bin'))
import specs
specs.load_all()
ALLOW = [l.strip() for l in open(os.path.join(V, 'bin', 'claimed.txt')) if l.strip() and not l.startswith('#')]
CLAIMED = {k: v for k, v in specs.MANIFEST.items() if k in ALLOW}
NOT_YET = {}
def main():
    props = [json.loads(l) for l in open(os.path.join(V, "properties.jsonl"))]
    checks, na = [], []
    for p in props:
        pid = p["id"]
        if pid in CLAIMED:
            c = CLAIMED[pid]
            checks.append(dict(property_id=pid, quick_cmd="python3 bin/check.py %s --tier quick" % pid,
                               thorough_cmd="python3 bin/check.py %s --tier thorough" % pid,
                               evidence_file="/verif/evidence/%s.json" % pid,
                               replay_cmd_template="python3 bin/check.py %s --replay {path}" % pid,
                               engine="tla-graph-replay",
                               level_claimed=dict(category=c["category"], text=c["text"], design_ref="DESIGN.md section " + c["ref"]),
                               level_note=c["note"], technique=c["technique"]))
        else:
            na.append(dict(property_id=pid, reason=NOT_YET.get(pid, "check not built yet in this round (planned: see DESIGN.md section 5); not claimed until its commands pass on the unchanged tree")))
    m = dict(version=1,
             setup_cmd="cd /verif/harness && cp /repo/go.sum go.sum && GOFLAGS=-mod=mod GOPROXY=off GOSUMDB=off GOTOOLCHAIN=local go vet ./... && tlc -h >/dev/null 2>&1; true",
             hooks=dict(guard="verif", enable="harness packages are built with `go test -c -tags verif` against /repo (replace directive); no hook inside /repo is needed so far",
                        baseline_off_cmd="cd /repo && GOPROXY=off GOSUMDB=off GOTOOLCHAIN=local go test -mod=mod -vet=off -count=1 -timeout 25m ./...",
                        source_commits=[], add_only=True),
             engines=[dict(name="tla-graph-replay", path="/verif/bin/check.py", serves_properties=sorted(CLAIMED),
                           kind_free_text="TLC model checking of /verif/spec/*.tla, TLC edge generation, Go harness replaying every edge on the real app, TLC evaluating property formulas on recorded real behaviours")],
             checks=checks, not_applicable=na,
             notes="See DESIGN.md. Verdicts come only from behaviours of the real code; exit 2 = infrastructure trouble.")
    json.dump(m, open(os.path.join(V, "MANIFEST.json"), "w"), indent=1)
    print("claimed:", sorted(CLAIMED), "not claimed:", len(na))
main()
