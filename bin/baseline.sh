#!/bin/bash
# Runs the repository's pinned test suite with the verif tag OFF and compares with BASELINE.json's stable_pass list.
# usage: bin/baseline.sh [logfile]
LOG=${1:-/tmp/baseline-$$.json}
cd /repo && GOPROXY=off GOSUMDB=off GOTOOLCHAIN=local go test -mod=mod -json -vet=off -count=1 -timeout 25m ./... > "$LOG" 2>/dev/null
python3 - "$LOG" <<'PY'
import json,sys
res={}
for line in open(sys.argv[1]):
    try: e=json.loads(line)
    except Exception: continue
    if e.get('Test') and e.get('Action') in('pass','fail','skip'):
        res[e['Package']+'::'+e['Test']]=e['Action']
b=json.load(open('/root/.vp/BASELINE.json'))
bad=[t for t in b['stable_pass'] if res.get(t)!='pass']
print('stable_pass tests:',len(b['stable_pass']),'not passing now:',len(bad))
for t in bad[:40]: print('  ',t,res.get(t))
sys.exit(1 if bad else 0)
PY
