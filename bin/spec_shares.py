"""Shares.tla : C11"""
import specs
from specs import graph_property

# =====================================================================================================
# Shares.tla : C11  (staking precompile: share transfers conserve shares, stake and reward entitlement)
# =====================================================================================================
SHARES_RESET = dict(name="Reset", d="none", v="none", w="none", f="none", t="none", n=0, res="ok")

SHARES_FORMULAS = {
    "C11": dict(invariants=["C11_SharesSum", "C11_StakeBacksShares", "C11_PaidExactly", "C11_RewardsFollowShares", "C11_SdkInvariants", "C11_Drainable"],
                properties=["C11_TransferConserves", "C11_BlockedWhileReceiving", "C11_AllowanceExact", "C11_BothPaid",
                            "C11_EntitlementConserved", "C11_OnlyStakeOpsMoveStake"],
                p_properties=["P_C11_TransferConserves", "P_C11_BlockedWhileReceiving", "P_C11_AllowanceExact", "P_C11_BothPaid",
                              "P_C11_EntitlementConserved", "P_C11_OnlyStakeOpsMoveStake"]),
}

D3, V2 = ["a", "b", "c"], ["v1", "v2"]
INITS = {
    "InitNone": {},
    "InitAB": {"a": {"v1": 2}, "b": {"v1": 1}},
    "InitABC": {"a": {"v1": 2}, "b": {"v1": 1, "v2": 1}},
}


def shares_consts(tok, und, sh, al, spender, slashable, steps):
    return dict(Delegator=D3, Validator=V2, TokAmt=tok, UndAmt=und, ShareAmt=sh, AllowAmt=al, Spender=spender, Slashable=slashable,
                MaxSteps=steps)


def shares_harness(init, drain=True, tag="x", **kw):
    # "chain" only labels the run (work files, evidence); the families differ in unit / pre-slash
    return dict(chain=tag, Delegator=D3, Validator=V2, InitShares=INITS[init], Drain=drain, **kw)


def ov(init, cap, fden="FdenNone"):
    return {"InitShares": init, "InitFden": fden, "Cap": cap}


# family "tenth": v1 slashed by 10% while the world is built, one model unit = one base unit, so that a token buys
# 1.111111111111111111 shares and delegations hold FRACTIONAL shares (projected exactly as whole shares + multiples of
# 0.111111111111111111)
FRAC = dict(Unit="1", PreSlash="tenth")
NOSP = []   # no spender: approve / transferFrom are not in the alphabet of that configuration
SHARES_MC = [
    dict(name="mcdev", tiers=["dev"], consts=shares_consts([1], [1], [1, 2], [2], ["c"], ["v1"], 2), overrides=ov("InitAB", "CapDev")),
    dict(name="mcq", tiers=["quick"], consts=shares_consts([1, 2], [1, 2], [1, 2], [0, 2], ["b", "c"], V2, 3), overrides=ov("InitAB", "CapQuick")),
    dict(name="mcqF", tiers=["dev", "quick"], consts=shares_consts([1, 2], [], [1, 2], [1], ["c"], [], 3), overrides=ov("InitNone", "CapFracT", "FdenV1")),
    dict(name="mct", tiers=["thorough"], consts=shares_consts([1, 2], [1, 2], [1, 2], [0, 2], ["b", "c"], V2, 4), overrides=ov("InitABC", "CapMC"),
         timeout=2400),
    dict(name="mctF", tiers=["thorough"], consts=shares_consts([1, 2], [], [1, 2, 3], [1, 2], ["b", "c"], [], 4), overrides=ov("InitNone", "CapFracT", "FdenV1"),
         timeout=2400),
]
SHARES_GEN = [
    dict(name="gendev", tiers=["dev"], consts=shares_consts([1], [1], [1, 2], [2], ["c"], ["v1"], 1), overrides=ov("InitAB", "CapDev"),
         harness=[shares_harness("InitAB")], shards=14, rej_sample=0, explore=1),
    dict(name="gendevF", tiers=["dev"], consts=shares_consts([1, 2], [], [1, 2], [1], NOSP, [], 1), overrides=ov("InitNone", "CapFracQ", "FdenV1"),
         harness=[shares_harness("InitNone", tag="tenth", **FRAC)], shards=8, rej_sample=0, explore=1),
    # quick A: stake operations, transfers (incl. to oneself, full / partial, new / existing recipient), rewards, one slash
    dict(name="genqA", tiers=["quick"], consts=shares_consts([1], [1], [1, 2], [2], NOSP, ["v1"], 3), overrides=ov("InitAB", "CapQuickA"),
         harness=[shares_harness("InitAB")], shards=14, rej_sample=0, explore=1),
    # quick B: allowances, transferFrom
    dict(name="genqB", tiers=["quick"], consts=shares_consts([1], [1], [1, 2], [1, 2], ["c"], [], 3), overrides=ov("InitAB", "CapQuickB"),
         harness=[shares_harness("InitAB")], shards=14, rej_sample=0, explore=1),
    # quick F: fractional shares: delegate 1-2 base tokens after the 10% slash, transfer whole shares, reward block
    dict(name="genqF", tiers=["quick"], consts=shares_consts([1, 2], [], [1, 2], [1], NOSP, [], 2), overrides=ov("InitNone", "CapFracQ", "FdenV1"),
         harness=[shares_harness("InitNone", tag="tenth", **FRAC)], shards=14, rej_sample=0, explore=1),
    # thorough A: as quick A, one step deeper, two reward blocks, both validators slashable, b delegates to both validators
    dict(name="gentA", tiers=["thorough"], consts=shares_consts([1], [1], [1, 2], [2], NOSP, V2, 4), overrides=ov("InitABC", "CapThoroughA"),
         harness=[shares_harness("InitABC")], shards=16, rej_sample=0, explore=2, timeout=2400),
    # thorough B: two spenders, allowances 1 and 2, two approvals, two transferFrom
    dict(name="gentB", tiers=["thorough"], consts=shares_consts([1], [1], [1, 2], [1, 2], ["b", "c"], [], 3), overrides=ov("InitAB", "CapThoroughB"),
         harness=[shares_harness("InitAB")], shards=16, rej_sample=0, explore=2, timeout=2400),
    # thorough C: token amounts 1 and 2 (full undelegation / redelegation of a's stake)
    dict(name="gentC", tiers=["thorough"], consts=shares_consts([1, 2], [1, 2], [1, 2], [2], NOSP, ["v1"], 3), overrides=ov("InitABC", "CapThoroughA"),
         harness=[shares_harness("InitABC")], shards=16, rej_sample=10, explore=2, timeout=2400),
    # thorough F: fractional shares, one step deeper, allowances and transferFrom
    dict(name="gentF", tiers=["thorough"], consts=shares_consts([1, 2], [], [1, 2], [1, 2], ["c"], [], 3), overrides=ov("InitNone", "CapFracT", "FdenV1"),
         harness=[shares_harness("InitNone", tag="tenth", **FRAC)], shards=16, rej_sample=10, explore=2, timeout=2400),
]


def shares(pid):
    def run(work, args):
        return graph_property(
            work, args, pid=pid, module="Shares", mcmodule="SharesMC", pkg="shares", formulas=SHARES_FORMULAS[pid],
            mc_cfgs=SHARES_MC, gen_cfgs=SHARES_GEN, reset_op=SHARES_RESET,
            level_note="", design_ref="5/C11",
            assumptions=[
                "every user operation is a real EVM transaction (EvmKeeper.EthereumTx, real interpreter/state DB) to the staking precompile signed by the acting delegator's key; it runs in a cache that is dropped when execution panics (as baseapp.runTx does) and such a transaction counts as refused",
                "one model unit = 100 FX (one unit of consensus power); genesis validators hold a 100 FX self-delegation, which the projection subtracts from the validator totals; commission 0",
                "family 'tenth' (configurations *F): validator v1 is slashed by 10% of its power through the real staking keeper while the world is built (before any modelled delegation), one model unit = ONE base unit, so a token buys 1.111111111111111111 shares and delegations hold fractional shares; every share quantity is projected EXACTLY as whole shares + k * 0.111111111111111111 (state variables shares/frac, valShares/valFrac, rate den/fden; anything not of that form sets the 'exact' register); undelegate/redelegate are not in this family's alphabet (their results are not of that form)",
                "RewardTick = the next block begins: 10 FX of fees in the fee collector, then the application's real BeginBlocker (mint, distribution with both validators voting at equal power, slashing, ...) on the branch; EndBlocker / validator-set updates are not run between operations",
                "Slash = the next block begins with a 50% slash of the validator's current power through the real staking keeper (distribution hook included), infraction height = current height, so unbonding entries and redelegations are not slashed; at most one slash per validator (environment choice that keeps the exchange rate a power of two)",
                "delegators are externally owned accounts with the default withdraw address and ample funds (delegateV2 is never refused for lack of funds); contract delegators are covered by C09/C10's caller checks, not here",
                "unbonding entries and redelegations do not mature between operations (the drain oracle advances time past the unbonding period on a throw-away branch and runs the staking end-blocker); the 7-entries limit is outside the bounds",
                "the observation functions (rewards owed, inv, drain) are evaluated in the NEXT block (height + 1 on a throw-away branch, no begin-blocker) after every transition, because x/distribution skips its stake sanity check in the block in which a starting info was written; pay is evaluated in the block of the transfer", "observation registers: inv = first broken route of CrisisKeeper.Routes() (all registered staking, distribution, bank, gov, ibc-transfer invariants) evaluated on a branch after EVERY executed transition; drain = every delegator withdraws and fully undelegates everywhere, the unbonding period passes, the staking end-blocker matures the entries, each account receives exactly its unbonding balances, invariants again; pay = for both parties of a transfer: balance delta = rewards owed before - rewards owed after (distribution query); all three are projected into the state and decided by TLC formulas",
                "inv and drain are memoised on a digest of the staking, distribution, bank, gov, ibc-transfer, mint, slashing and params stores plus block height and time (byte-identical inputs give the same result; account nonces and EVM state are assumed irrelevant to them)",
                "reward entitlement (state variable accrued[d][v] = number of reward blocks earned and not yet paid): the rewards one share of a validator earns in each reward block are measured on a reference delegation that no modelled operation touches (the validator's genesis self-delegation, whose owed rewards are recorded on the branch after every RewardTick); what the real distribution module owes a delegation (query in the next block) is projected to the number j of most recent reward blocks with owed = current shares * rewards per share of those j blocks (tolerance 1e-9 relative + 1e-16 base units for F1's truncations), and to -1 when no whole number of blocks fits; the SDK's F1 computation for the untouched reference delegation is trusted",
                "projection: delegations, validators, unbonding delegations, redelegations through the SDK staking keeper's getters (plain store reads), allowances by raw read of the fx staking store (prefix 0x90), rewards through the distribution querier on a branch",
            ])
    return run


specs.REGISTRY["C11"] = shares("C11")

specs.MANIFEST.update({
 "C11": dict(category="model_checking", technique="TLA+ spec Shares.tla: TLC exhaustive model check + replay of every TLC-generated transition as real EVM transactions to the staking precompile on a chain with real staking/distribution/mint/slashing + TLC evaluation of the C11 formulas (incl. SDK crisis invariants, reward pay-out equation and full-drain availability observed on the real state) on recorded real behaviours",
             text="Shares.tla models delegations of three accounts at two validators, allowances, reward entitlements (number of reward blocks a delegation earned on its current shares and has not been paid, measured against an untouched reference delegation of the same validator), incoming redelegations, unbonding balances and the validators' shares/tokens/exchange rate under delegateV2, undelegateV2, redelegateV2, withdraw, approveShares, transferShares (including to oneself, full and partial, new and existing recipient), transferFromShares, reward-producing blocks and a 50% validator slash; a second family runs on a validator slashed by 10% where delegations hold fractional shares (projected exactly) and whole shares are transferred. TLC checks on all bounded interleavings: shares sum to the validator's total, tokens back shares at the exchange rate, a transfer moves exactly n from sender to recipient (identity for sender = recipient) and never changes validator totals / unbonding / redelegations, transferFrom spends exactly the amount of an allowance that covers it, the sender has no incoming redelegation, both parties are paid, what a delegation is owed is always what its current shares earned over a whole number of reward blocks (staking and distribution bookkeeping agree), and entitlements are conserved (a reward block adds exactly one block on the shares held, no operation changes the entitlement of a delegation it does not act on). Every generated transition is executed as a real EVM transaction on a branch of the real multistore and the projected state compared; after every transition the registered crisis invariants, the reward pay-out equation of the step and a full drain (everyone withdraws and fully undelegates, entries mature, invariants again) are evaluated on the real state and projected into the state, so that TLC decides them on the recorded real behaviours.",
             note="bounded: 3 externally-owned delegators, 2 validators, amounts 1-2 units of 100 FX, <=3 (quick) / <=4 (thorough) accepted operations plus one arbitrary further operation, <=2 reward blocks, one 50% slash per validator at the current height (no slashing of unbonding entries/redelegations), a 10% slash only while the world is built (fractional-share family: delegate, withdraw, approve, transfer, transferFrom, reward block), no maturing between operations; all rejected operations executed in quick and in thorough A/B, 10 sampled per state in thorough C/F; trusted: TLC, the projection (SDK getters + raw allowance reads), the SDK's own invariants as oracle", ref="5 (C11)"),
})
