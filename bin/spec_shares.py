"""Shares.tla : C11"""
import specs
from specs import graph_property

# =====================================================================================================
# Shares.tla : C11  (staking precompile: share transfers conserve shares, stake and reward entitlement)
# =====================================================================================================
SHARES_RESET = dict(name="Reset", d="none", v="none", w="none", f="none", t="none", n=0, res="ok")

SHARES_FORMULAS = {
    "C11": dict(invariants=["C11_SharesSum", "C11_StakeBacksShares", "C11_PaidExactly", "C11_SdkInvariants", "C11_Drainable"],
                properties=["C11_TransferConserves", "C11_BlockedWhileReceiving", "C11_AllowanceExact", "C11_BothPaid",
                            "C11_OnlyStakeOpsMoveStake"],
                p_properties=["P_C11_TransferConserves", "P_C11_BlockedWhileReceiving", "P_C11_AllowanceExact", "P_C11_BothPaid",
                              "P_C11_OnlyStakeOpsMoveStake"]),
}

D3, V2 = ["a", "b", "c"], ["v1", "v2"]
INITS = {
    "InitAB": {"a": {"v1": 2}, "b": {"v1": 1}},
    "InitABC": {"a": {"v1": 2}, "b": {"v1": 1, "v2": 1}},
}


def shares_consts(tok, sh, al, spender, slashable, steps):
    return dict(Delegator=D3, Validator=V2, TokAmt=tok, ShareAmt=sh, AllowAmt=al, Spender=spender, Slashable=slashable, MaxSteps=steps)


def shares_harness(init, drain=True):
    return dict(Delegator=D3, Validator=V2, InitShares=INITS[init], Drain=drain)


def ov(init, cap):
    return {"InitShares": init, "Cap": cap}


NOSP = []   # no spender: approve / transferFrom are not in the alphabet of that configuration
SHARES_MC = [
    dict(name="mcdev", tiers=["dev"], consts=shares_consts([1], [1, 2], [2], ["c"], ["v1"], 2), overrides=ov("InitAB", "CapDev")),
    dict(name="mcq", tiers=["quick"], consts=shares_consts([1, 2], [1, 2], [0, 2], ["b", "c"], V2, 3), overrides=ov("InitAB", "CapQuick")),
    dict(name="mct", tiers=["thorough"], consts=shares_consts([1, 2], [1, 2], [0, 2], ["b", "c"], V2, 4), overrides=ov("InitABC", "CapMC"),
         timeout=2400),
]
SHARES_GEN = [
    dict(name="gendev", tiers=["dev"], consts=shares_consts([1], [1, 2], [2], ["c"], ["v1"], 1), overrides=ov("InitAB", "CapDev"),
         harness=[shares_harness("InitAB")], shards=14, rej_sample=2, explore=1),
    # quick A: stake operations, transfers (incl. to oneself, full / partial, new / existing recipient), rewards, one slash
    dict(name="genqA", tiers=["quick"], consts=shares_consts([1], [1, 2], [2], NOSP, ["v1"], 3), overrides=ov("InitAB", "CapQuickA"),
         harness=[shares_harness("InitAB")], shards=14, rej_sample=2, explore=1),
    # quick B: allowances, transferFrom
    dict(name="genqB", tiers=["quick"], consts=shares_consts([1], [1, 2], [1, 2], ["c"], [], 3), overrides=ov("InitAB", "CapQuickB"),
         harness=[shares_harness("InitAB")], shards=14, rej_sample=2, explore=1),
    # thorough A: as quick A, one step deeper, two reward blocks, both validators slashable, b delegates to both validators
    dict(name="gentA", tiers=["thorough"], consts=shares_consts([1], [1, 2], [2], NOSP, V2, 4), overrides=ov("InitABC", "CapThoroughA"),
         harness=[shares_harness("InitABC")], shards=16, rej_sample=10, explore=2, timeout=2400),
    # thorough B: two spenders, allowances 1 and 2, two approvals, two transferFrom
    dict(name="gentB", tiers=["thorough"], consts=shares_consts([1], [1, 2], [1, 2], ["b", "c"], [], 3), overrides=ov("InitAB", "CapThoroughB"),
         harness=[shares_harness("InitAB")], shards=16, rej_sample=10, explore=2, timeout=2400),
    # thorough C: token amounts 1 and 2 (full undelegation / redelegation of a's stake)
    dict(name="gentC", tiers=["thorough"], consts=shares_consts([1, 2], [1, 2], [2], NOSP, ["v1"], 3), overrides=ov("InitABC", "CapThoroughA"),
         harness=[shares_harness("InitABC")], shards=16, rej_sample=10, explore=2, timeout=2400),
]


def shares(pid):
    def run(work, args):
        return graph_property(
            work, args, pid=pid, module="Shares", mcmodule="SharesMC", pkg="shares", formulas=SHARES_FORMULAS[pid],
            mc_cfgs=SHARES_MC, gen_cfgs=SHARES_GEN, reset_op=SHARES_RESET,
            level_note="", design_ref="5/C11",
            assumptions=[
            ])
    return run


specs.REGISTRY["C11"] = shares("C11")

specs.MANIFEST.update({
 "C11": dict(category="model_checking", technique="TLA+ spec Shares.tla: TLC exhaustive model check + replay of every TLC-generated transition as real EVM transactions to the staking precompile + TLC evaluation of the C11 formulas on recorded real behaviours",
             text="",
             note="", ref="5 (C11)"),
})
