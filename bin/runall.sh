#!/bin/bash
# usage: bin/runall.sh <tier> <parallel> [ids...]   -- runs the checks, logs to .work/runall/<id>.<tier>.log, prints rc + seconds per id
TIER=${1:-quick}; PAR=${2:-3}; shift 2
IDS=${@:-$(grep -v '^#' /verif/bin/claimed.txt)}
mkdir -p /verif/.work/runall
run() { id=$1; s=$(date +%s); timeout 5400 python3 /verif/bin/check.py $id --tier $TIER > /verif/.work/runall/$id.$TIER.log 2>&1; rc=$?; echo "$id rc=$rc $(( $(date +%s) - s ))s $(grep -c -E '^VIOLATION' /verif/.work/runall/$id.$TIER.log) violations $(grep -c '^KNOWN-FINDING' /verif/.work/runall/$id.$TIER.log) known"; }
export -f run; export TIER
echo $IDS | tr ' ' '\n' | xargs -P $PAR -I{} bash -c 'run {}'
