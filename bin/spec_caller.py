"""Caller.tla : C10  (precompiles act only for their direct caller and only in a writable call context)"""
import specs
from specs import graph_property

RESET = dict(name="Reset", m="none", chain="none", kind="none", naming="none", fate="none", o="none", s="none", n=0, x=[], res="ok")
FORMULAS = dict(
    invariants=[],
    properties=["C10_OnlyDirectCaller", "C10_AllowanceBound", "C10_WriteNeedsCall", "C10_DisabledNeverRuns", "C10_RefusedIsNoop", "C10_RevertedIsNoop"],
    p_properties=["P_C10_OnlyDirectCaller", "P_C10_AllowanceBound", "P_C10_WriteNeedsCall", "P_C10_DisabledNeverRuns", "P_C10_RefusedIsNoop",
                  "P_C10_RevertedIsNoop"])

STAKING = ["delegateV2", "undelegateV2", "redelegateV2", "withdraw", "approveShares", "transferShares", "transferFromShares"]
CROSS = ["crossChain", "bridgeCall", "cancelSendToExternal", "increaseBridgeFee", "executeClaim"]
ALL = STAKING + CROSS + ["delegation"]


def consts(methods, switches, amts, maxapp, maxslash=1, slashswitch=0):
    # switches: name of the operator in CallerMC.tla that defines the set of switch settings (sequences of entries)
    # maxslash: validator 0 may be slashed (by one half) that often; slashed states are combined with switch settings of
    # at most `slashswitch` entries
    return dict(consts=dict(Method=methods, ApproveAmt=amts, MaxCall=1, MaxApprove=maxapp, MaxSlash=maxslash, SlashSwitchLen=slashswitch),
                overrides=dict(SwitchVal=switches))


def mc(name, tiers, c, **kw):
    return dict(name=name, tiers=tiers, consts=c["consts"], overrides=c["overrides"], **kw)


def cfg(name, tiers, c, shards=14, **kw):
    return dict(name=name, tiers=tiers, consts=c["consts"], overrides=c["overrides"], harness=[dict(chain="x", Method=c["consts"]["Method"])],
                shards=shards, rej_sample=0, explore=0, **kw)


DEV = consts(["transferFromShares", "crossChain", "delegation"], "SwitchDev", [2], 1)
# quick: every method, every chain x call kind x naming; switch (CallerMC!SwitchQuick): off / either address / one
# method of each precompile (for the other methods: "another method disabled") / lists of two and four entries
# with the blocking entry after, before, and between entries of the same and of the other precompile;
# allowances: none or one grant of 1, 2, 3 (combined with the single-entry settings)
QUICK = consts(ALL, "SwitchQuick", [1, 2, 3], 1)
# thorough: every method also as switch setting (one grant); and, for the share methods, two successive grants
# (overwrites, grants to two spenders, grants by two owners)
# thorough: slashed states are combined with every single-entry switch setting as well
THOROUGH = consts(ALL, "SwitchThorough", [1, 2, 3], 1, maxslash=1, slashswitch=1)
GRANTS2 = consts(["transferFromShares", "transferShares", "approveShares", "delegation"], "SwitchOff", [1, 3], 2, maxslash=1)
# two successive slashes (one token = 4 shares): the staking methods with one grant
SLASH2 = consts(STAKING + ["delegation"], "SwitchOff", [1, 2, 3], 1, maxslash=2)

MC = [mc("dev", ["dev"], DEV), mc("quick", ["quick"], QUICK), mc("thorough", ["thorough"], THOROUGH, timeout=2400),
      mc("grants2", ["thorough"], GRANTS2, timeout=2400), mc("slash2", ["thorough", "slash2"], SLASH2, timeout=2400)]
GEN = [cfg("dev", ["dev"], DEV, shards=4), cfg("quick", ["quick"], QUICK), cfg("thorough", ["thorough"], THOROUGH, shards=16, timeout=2400),
       cfg("grants2", ["thorough"], GRANTS2, shards=16, timeout=2400), cfg("slash2", ["thorough", "slash2"], SLASH2, shards=16, timeout=2400)]

ASSUMPTIONS = [
    "one validator (0) carries the share portfolios, validator 1 is the redelegation target; every method moves 2 units (crossChain fee 1, parked deposits 3)",
    "one accepted precompile call per behaviour (MaxCall = 1) from every reachable combination of switch setting and allowance grants; chains of calls are C09's / C11's subject",
    "transfers of shares to oneself are left to C11 (Shares.tla)",
    "frames are undone by REVERT after the precompile returned (the direct caller reverts and the failure reaches the transaction / is caught by the calling contract, or the calling contract reverts after the direct caller completed), last hop CALL; exceptional halts and gas exhaustion are C09's subject",
    "validator 0 is slashed by one half of its consensus power at most once (twice in the thorough configuration slash2) through the staking keeper's Slash, as the evidence handler calls it when a block begins (its stake is a whole multiple of 400 FX, so the rate is exactly 2 / 4 shares per token); slashed states are combined with the empty switch (quick) / the single-entry settings (thorough)",
    "increaseBridgeFee / cancelSendToExternal act on pooled FX transfers (origin token, msg.value): the ERC-20 leg of increaseBridgeFee cannot succeed on this tree",
    "transactions are executed at keeper level (no fee deduction), rewards are sub-unit amounts: FX balances are compared in whole units plus a 'received a fraction' flag",
    "the governance switch is set by MsgUpdateSwitchParams through the message router with the governance module address as authority (proposal flow: C15/C16)",
]


def run(work, args):
    return graph_property(work, args, pid="C10", module="Caller", mcmodule="CallerMC", pkg="caller", formulas=FORMULAS,
                          mc_cfgs=MC, gen_cfgs=GEN, reset_op=RESET, level_note="", design_ref="5/C10", assumptions=ASSUMPTIONS)


specs.REGISTRY["C10"] = run
specs.MANIFEST.update({
    "C10": dict(category="model_checking",
                technique="TLA+ spec Caller.tla (account portfolios, call chain, call instruction, argument naming, fate of the calling frames, allowances, validator exchange rate, governance switch): TLC exhaustive model check + every generated transition (accepted and rejected) executed as a real EVM transaction through assembled caller contracts + TLC evaluation of the C10 formulas on recorded real behaviours",
                text="Caller.tla models what each state-changing method of the staking and cross-chain precompiles does to the portfolios of four accounts (FX, ERC-20, coin, shares, rewards, allowances, unbonding, redelegation, pooled transfers, bridge calls, parked deposits) as a function of the direct caller, the call instruction of the last hop (CALL/STATICCALL/DELEGATECALL/CALLCODE), whom the arguments name, whether the calling frames survive (commit / the direct caller reverts after the call, caught or not / its parent reverts), the allowances, the exchange rate of the validator (slashed by one half: token-denominated methods move 2^k shares, allowances stay in shares) and the governance switch. The complete product is executed on the real application (direct call, through one and through two contracts) and every account's portfolio is read back from the stores; the formulas OnlyDirectCaller, AllowanceBound, WriteNeedsCall, DisabledNeverRuns, RefusedIsNoop, RevertedIsNoop are evaluated on all recorded real transitions.",
                note="bounded: four accounts, one validator, fixed amounts, one precompile call per behaviour, <=2 allowance grants; trusted: TLC, the portfolio read-back, go-ethereum's dispatch of call kinds", ref="5 (C10)"),
})
