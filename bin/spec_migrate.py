"""Migrate.tla : C14 (account migration moves everything, once, to the address that authorised it)"""
import specs
from specs import graph_property

MIG_RESET = dict(name="Reset", a="none", b="none", s="none", v="none", w="none", n=0, p=0, res="ok")

MIG_FORMULAS = dict(
    invariants=["C14_RecordsAgree", "C14_NoLeftover", "C14_IndexesConsistent", "C14_QueuesMatch", "C14_InvariantsHold",
                "C14_TotalsMatch", "C14_SourceEmpty"],
    properties=["C14_MovesEverything", "C14_Once", "C14_NeedsTargetSignature", "C14_NoOperatorNoStakedTarget",
                "C14_RefusedWhileInOpenProposal", "C14_TargetActsAsSource", "C14_MaturedFundsArrive"],
    p_properties=["P_C14_MovesEverything", "P_C14_Once", "P_C14_NeedsTargetSignature", "P_C14_NoOperatorNoStakedTarget",
                  "P_C14_RefusedWhileInOpenProposal", "P_C14_TargetActsAsSource", "P_C14_MaturedFundsArrive"],
)

SRC, TGT, VAL = ["s1", "s2"], ["t1", "t2"], ["v1", "v2"]
COINS = {"CoinsStd": {"s1": 4, "s2": 2, "t1": 0, "t2": 2}, "CoinsGov": {"s1": 2, "s2": 1, "t1": 0, "t2": 2}}


def consts(*, delegate=(), undelegate=(), redelegate=(), withdraw=(), gov=(), opval=("v1", "v2"),
           mig_from=("s1", "s2", "t1", "o1"), mig_to=("t1", "t2", "tv"),
           stake=0, ticks=0, passes=1, props=0, govops=0, entries=2, mindep=2, blockops=False, begins=0):
    return dict(Src=SRC, Tgt=TGT, Val=VAL, OpFrom="o1", OpTo="tv",
                DelegateBy=list(delegate), UndelegateBy=list(undelegate), RedelegateBy=list(redelegate),
                WithdrawBy=list(withdraw), GovBy=list(gov), OpVal=list(opval), MigFrom=list(mig_from), MigTo=list(mig_to),
                DelAmt=2, UndAmt=1, RedAmt=1, MinDeposit=mindep, UnbondH=504, DepositH=48, VotingH=96, BlockOps=blockops, MaxBegin=begins,
                MaxStake=stake, MaxTicks=ticks, MaxPasses=passes, MaxProps=props, MaxGov=govops, MaxEntries=entries)


def harness(tag, coins, mindep=2):
    return dict(chain=tag, Src=SRC, Tgt=TGT, Val=VAL, OpFrom="o1", OpTo="tv", InitCoins=COINS[coins], MinDeposit=mindep,
                UnbondH=504, DepositH=48, VotingH=96)


# Scenario families (who attempts what; every family contains all Migrate variants: wrong signer, used addresses,
# operator as source / target, same 20 bytes, target without public key as source)
# ALL: s1 rich source, s2 second delegator, t2 funded target that can disqualify itself, t1 fresh address acting afterwards
ALL = dict(delegate=("s1", "s2", "t2"), undelegate=("s1", "s2", "t1"), redelegate=("s1",), withdraw=("s1", "t1"))
# ONE: one source with every portfolio shape over two validators, target acts after the migration
ONE = dict(delegate=("s1",), undelegate=("s1", "t1"), redelegate=("s1", "t1"), withdraw=("s1", "t1"), mig_from=("s1", "t1", "o1"))
# SHARED: two delegators of one validator whose unbonding entries share / do not share completion times (queue slices)
SHARED = dict(delegate=("s1", "s2"), undelegate=("s1", "s2", "t1"), opval=("v1",))
# STAKED: a target that has delegation / only unbonding records
STAKED = dict(delegate=("s1", "t2"), undelegate=("t2",))
# GOV: source and target as proposer / depositor / voter at every point of a proposal's life
GOV2 = dict(gov=("s1", "t2"), mig_from=("s1", "s2", "t2", "o1"))
GOV3 = dict(gov=("s1", "s2", "t2"), mig_from=("s1", "s2", "t2", "o1"))
# MIXED: staking portfolio and governance involvement together
MIXED = dict(delegate=("s1",), undelegate=("s1", "t1"), withdraw=("t1",), opval=("v1",), gov=("s1", "t2"))

# MATURE: a block whose time has reached (exactly / strictly passed) the completion time of pending entries, with
# transactions (Migrate, further staking operations) BEFORE that block's end blocker pays out; two delegators share slices
MATURE = dict(delegate=("s1", "s2"), undelegate=("s1", "s2"), redelegate=("s1",), opval=("v1",), mig_from=("s1",), mig_to=("t1",),
              blockops=True, begins=1, passes=0)
MATURE_ALL = dict(delegate=("s1", "s2"), undelegate=("s1", "s2", "t1"), redelegate=("s1",), opval=("v1",), mig_from=("s1", "s2"),
                  mig_to=("t1", "t2"), blockops=True, begins=1, passes=0)

STD, GOVC = {"InitCoins": "CoinsStd"}, {"InitCoins": "CoinsGov"}
Q, T, D = ["quick"], ["thorough"], ["dev"]

MIG_MC = [
    dict(name="mcAll3", tiers=D + Q + T, consts=consts(**ALL, stake=3, ticks=1), overrides=STD),
    dict(name="mcGov2", tiers=D + Q + T, consts=consts(**GOV2, props=2, govops=4), overrides=GOVC),
    dict(name="mcMature", tiers=D + Q + T, consts=consts(**MATURE, stake=4, ticks=1), overrides=STD),
    dict(name="mcMatureAll", tiers=T, consts=consts(**MATURE_ALL, stake=4, ticks=1), overrides=STD),
    dict(name="mcMixed", tiers=T, consts=consts(**MIXED, stake=2, ticks=1, props=1, govops=3), overrides=STD),
    dict(name="mcAll4", tiers=T, consts=consts(**ALL, stake=4, ticks=1), overrides=STD, timeout=1200),
    dict(name="mcOne6", tiers=T, consts=consts(**ONE, stake=6, ticks=2), overrides=STD, timeout=1200),
    dict(name="mcShared6", tiers=T, consts=consts(**SHARED, stake=6, ticks=1), overrides=STD),
    dict(name="mcGov3", tiers=T, consts=consts(**GOV3, props=2, govops=6), overrides=GOVC),
    dict(name="mcMixed34", tiers=T, consts=consts(**MIXED, stake=3, ticks=1, props=1, govops=4), overrides=STD),
]


def gen(name, tiers, c, ov, coins, **kw):
    d = dict(name=name, tiers=tiers, consts=c, overrides=ov, harness=[harness(name, coins)])
    d.update(kw)
    return d


MIG_GEN = [
    gen("devOne", D, consts(**ONE, stake=2, ticks=1), STD, "CoinsStd", shards=8, rej_sample=4, explore=2),
    gen("devStaked", D, consts(**STAKED, stake=2), STD, "CoinsStd", shards=4, rej_sample=4, explore=2),
    gen("devMature", D, consts(**MATURE, stake=3, ticks=1), STD, "CoinsStd", shards=8, rej_sample=4, explore=2),
    gen("devGov", D, consts(**GOV2, props=1, govops=3), GOVC, "CoinsGov", shards=8, rej_sample=4, explore=2),
    # quick: rejected operations sampled per state
    gen("qOne", Q, consts(**ONE, stake=4, ticks=1), STD, "CoinsStd", shards=14, rej_sample=6, explore=2),
    gen("qShared", Q, consts(**SHARED, stake=4, ticks=1), STD, "CoinsStd", shards=14, rej_sample=6, explore=2),
    gen("qStaked", Q, consts(**STAKED, stake=3), STD, "CoinsStd", shards=8, rej_sample=6, explore=2),
    gen("qMature", Q, consts(**MATURE, stake=3, ticks=1), STD, "CoinsStd", shards=14, rej_sample=6, explore=2),
    gen("qGov", Q, consts(**GOV2, props=2, govops=4), GOVC, "CoinsGov", shards=14, rej_sample=6, explore=2),
    # thorough: every operation of the alphabet in every expanded state
    gen("tOne", T, consts(**ONE, stake=5, ticks=1), STD, "CoinsStd", shards=16, rej_sample=0, explore=3),
    gen("tShared", T, consts(**SHARED, stake=6, ticks=1), STD, "CoinsStd", shards=16, rej_sample=0, explore=3),
    gen("tAll", T, consts(**ALL, stake=3, ticks=1), STD, "CoinsStd", shards=16, rej_sample=0, explore=3),
    gen("tStaked", T, consts(**STAKED, stake=4), STD, "CoinsStd", shards=8, rej_sample=0, explore=3),
    gen("tMature", T, consts(**MATURE_ALL, stake=4, ticks=1), STD, "CoinsStd", shards=16, rej_sample=0, explore=3),
    gen("tGov", T, consts(**GOV3, props=2, govops=5), GOVC, "CoinsGov", shards=16, rej_sample=0, explore=3),
    gen("tMixed", T, consts(**MIXED, stake=2, ticks=1, props=1, govops=4), STD, "CoinsStd", shards=16, rej_sample=0, explore=3),
]

ASSUMPTIONS = [
    "messages are delivered through the application's message router with ValidateBasic (where the target-key signature check lives) "
    "and per-message atomicity, not inside signed transactions: the ante handler (fee deduction, the source's own transaction "
    "signature) is not exercised; the harness asserts that the application's signing context names `from` as the only required signer",
    "source accounts are secp256k1 accounts whose public key is set on the account directly (what the ante handler does at the first "
    "transaction); the ethereum-key validator operator is created with a real MsgCreateValidator",
    "governance parameters are set with the governance-authority MsgUpdateParams (deposits of 1 FX, voting from 2 FX, deposit period 48h, "
    "voting period 96h); proposals are text proposals; closed proposals are those ended by the real end blocker (expired or rejected for "
    "lack of quorum, deposits refunded)",
    "RewardTick = one block, +1h: fees in a second denomination are minted to the fee collector and distribution's real BeginBlocker "
    "allocates them with vote infos naming the genesis validators; reward amounts are abstracted to 'pending / not pending' and 'holds "
    "the reward denomination'; no slashing, so shares = tokens",
    "BeginBlockExact / BeginBlockLater derive the next block's context on the branch (time = exactly / strictly after the completion "
    "time of the oldest pending entry) without any begin or end blocker; EndBlock = the application's real EndBlocker at the current time; "
    "messages in between run in that block as transactions would, before its end blocker",
    "TimePasses = one block beyond unbonding (and deposit / voting) period on the branch with the application's real EndBlocker; "
    "header info and block header of derived contexts are set consistently as baseapp does",
    "abstraction function: raw prefix scans of the staking store (0x31 0x32 0x33 0x34 0x35 0x36 0x38 0x41 0x42 0x71), distribution 0x04, "
    "the migrate store, bank balances, gov collections; pending rewards through distribution's DelegationRewards query on a branch; "
    "leftover = keys/values of the staking, distribution and bank stores containing the 20 bytes or the bech32 text of a migrated source; "
    "inv = the routes registered with the crisis keeper, run after every transition",
    "not covered: vesting accounts, delegator withdraw addresses, slashing between delegation and migration, multi-signature sources",
]


def migrate(pid):
    def run(work, args):
        return graph_property(
            work, args, pid=pid, module="Migrate", mcmodule="MigrateMC", pkg="migrate", formulas=MIG_FORMULAS,
            mc_cfgs=MIG_MC, gen_cfgs=MIG_GEN, reset_op=MIG_RESET, level_note="", design_ref="5/C14",
            assumptions=ASSUMPTIONS)
    return run


specs.REGISTRY["C14"] = migrate("C14")
specs.MANIFEST.update({
 "C14": dict(category="model_checking",
             technique="TLA+ spec Migrate.tla: TLC exhaustive model check + replay of every TLC-generated transition on the real migrate/staking/"
                       "distribution/bank/gov keepers + TLC evaluation of the C14 formulas on recorded real behaviours",
             text="Migrate.tla models delegations, pending rewards, unbonding and redelegation entries with completion slots, balances in two "
                  "denominations, governance proposals (proposer, depositors, voters, phase) and MsgMigrateAccount with the key that signed the "
                  "(from, to) pair. TLC checks: the whole portfolio of the source is the target's afterwards and nothing else changes "
                  "(MovesEverything, TotalsMatch, SourceEmpty), records are written once and never change (Once, RecordsAgree), only the target "
                  "key authorises (NeedsTargetSignature), no operator and no staked target (NoOperatorNoStakedTarget), refusal while source or "
                  "target takes part in an open proposal (RefusedWhileInOpenProposal), the target can undelegate, withdraw and is paid matured "
                  "entries (TargetActsAsSource). Raw-store oracles are part of the projected state: no key or value of the staking, distribution "
                  "and bank stores embeds a migrated source (NoLeftover), by-validator / unbonding-id indexes, starting infos and time queues "
                  "agree with the records (IndexesConsistent, QueuesMatch), the SDK's crisis invariants hold after every transition "
                  "(InvariantsHold). Every generated transition is executed on branches of the real multistore; the same formulas are evaluated "
                  "by TLC on the behaviours recorded from the real code.",
             note="bounded: 2 sources, 2 targets, 2 validators + an ethereum-key operator, <= 6 staking operations, <= 2 entries per record, "
                  "<= 2 proposals; router-level delivery (no ante handler); reward amounts abstracted; trusted: TLC, the abstraction function",
             ref="5 (C14)"),
})
