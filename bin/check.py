#!/usr/bin/env python3
"""python3 bin/check.py <Cxx> [--tier quick|thorough] [--replay file]

One property, one tier: TLC model check -> TLC generation -> replay of every generated transition
on the real application -> evaluation (by TLC) of the property's formulas on the behaviours
recorded from the real code -> evidence + verdict.  See DESIGN.md sections 2 and 4.
"""
import argparse, json, os, sys, time, traceback

sys.path.insert(0, os.path.dirname(os.path.abspath(__file__)))
import vlib
from vlib import Infra, log
import specs
specs.load_all()


def main():
    ap = argparse.ArgumentParser()
    ap.add_argument("pid")
    ap.add_argument("--tier", default=os.environ.get("VERIF_TIER", "quick"))
    ap.add_argument("--replay")
    ap.add_argument("--keep", action="store_true")
    a = ap.parse_args()
    seed = int(os.environ.get("VERIF_SEED", "1"))
    if a.pid not in specs.REGISTRY:
        log("unknown property", a.pid)
        sys.exit(2)
    work = vlib.Work(a.pid, a.tier, seed)
    rc = 2
    try:
        rc = specs.REGISTRY[a.pid](work, a)
    except Infra as e:
        log("INFRASTRUCTURE:", e)
        rc = 2
    except Exception:
        traceback.print_exc()
        rc = 2
    finally:
        if not a.keep:
            work.cleanup()
    sys.exit(rc)


if __name__ == "__main__":
    main()
