"""IbcTransfer.tla : C19"""
import specs
from specs import graph_property

RESET = dict(name="Reset", ch="none", u="none", tok="none", a=0, s=0, rf="none", dn="none", memo="none", res="ok")
FORMULAS = dict(
    invariants=["C19_SenderNeverLocal", "C19_RelationGone", "C19_RelationMarksErc20", "C19_Conservation"],
    properties=["C19_CreditExactOrNothing", "C19_SenderIsDerived", "C19_RefundOnce", "C19_SendExact"],
    p_properties=["P_C19_CreditExactOrNothing", "P_C19_SenderIsDerived", "P_C19_RefundOnce", "P_C19_SendExact"])
U2 = ["u1", "u2"]
C0, C02 = ["channel-0"], ["channel-0", "channel-2"]


FORMS, DNS, MEMOS = ["bech", "hex"], ["fx", "tb", "t1", "vx", "f1", "fh"], ["none", "junk", "good", "goodAs", "bad"]


def consts(chan, amt, maxseq, maxin, fx=1, coin=1, erc=1, esc=1, pool=4, form=FORMS, dn=DNS, memo=MEMOS, wchan=None):
    return dict(Acct=U2, Chan=chan, Amt=amt, MaxSeq=maxseq, MaxIn=maxin, InitFx=fx, InitCoin=coin, InitErc=erc, InitEsc=esc, InitPool=pool,
                Form=form, Dn=dn, Memo=memo, WChan=chan[:1] if wchan is None else wchan)


def harness(c):
    h = {k: c[k] for k in ("Acct", "Chan", "MaxSeq", "MaxIn", "InitFx", "InitCoin", "InitErc", "InitEsc", "InitPool", "WChan")}
    h["chain"] = "+".join(x.replace("channel-", "c") for x in c["Chan"])
    return h


def cfg(name, tiers, c, shards=14, rej_sample=0, **kw):
    return dict(name=name, tiers=tiers, consts=c, harness=[harness(c)], shards=shards, rej_sample=rej_sample, **kw)


DEV = consts(C0, [1], 1, 1)
Q1 = consts(C0, [1], 2, 1, memo=["none", "good", "bad"], dn=["fx", "t1", "vx", "f1"], wchan=[])  # "FX" by name, no pair
Q2 = consts(C0, [1], 1, 2)
M1 = consts(C0, [1, 2], 2, 2, fx=2, pool=4)
M2 = consts(C02, [1], 1, 1, pool=2)
T1 = consts(C0, [1], 2, 1, wchan=[])
T2 = consts(C0, [1, 2], 1, 1, fx=2, coin=2, erc=2, esc=2, pool=8)
T3 = consts(C02, [1], 1, 0, pool=2, dn=["fx", "t1"], memo=["none", "good"])
T4 = consts(C02, [1], 0, 1, pool=2, dn=["fx", "tb", "t1", "f1", "fh"], memo=["none", "good", "bad"])

M1Q = consts(C0, [1, 2], 2, 1, fx=2, pool=4)
M2Q = consts(C02, [1], 1, 0, pool=2)

MC = [
    dict(name="dev", tiers=["dev"], consts=DEV),
    dict(name="oneq", tiers=["quick"], consts=M1Q),
    dict(name="twoq", tiers=["quick"], consts=M2Q),
    dict(name="one", tiers=["thorough"], consts=M1),
    dict(name="two", tiers=["thorough"], consts=M2),
]
GEN = [
    cfg("dev", ["dev"], DEV, rej_sample=3),
    cfg("out", ["quick"], Q1, rej_sample=3),
    cfg("in", ["quick"], Q2, rej_sample=3),
    cfg("outT", ["thorough"], T1, shards=16),
    cfg("inT", ["thorough"], Q2, shards=16),
    cfg("amtT", ["thorough"], T2, shards=16),
    cfg("twoOutT", ["thorough"], T3, shards=16),
    cfg("twoInT", ["thorough"], T4, shards=16),
]

ASSUMPTIONS = [
    "the other chain is played by the harness over ibc-go's localhost client (connection-localhost): what it would have written (commitments of packets it sends, receipts/acknowledgements of packets it receives) is written under ITS channel end's paths in the IBC store; fxcore's side is driven only through the real MsgRecvPacket / MsgAcknowledgement / MsgTimeout / MsgTransfer handlers (message router) and the crossChain precompile in real EVM transactions; the sentinel proof is verified by the real IBC core, on CacheContext branches without commits",
    "channel ends (OPEN, UNORDERED, ics20-1) and their capabilities are written directly into the stores instead of running the four-step handshake",
    "WORLD SHORTCUT: the parked vouchers of token T (base coin usdt with one ibc/ alias per channel) are produced by the real IBCCoinToEvm on vouchers minted to a treasury with the denom trace set and NO bank metadata for the voucher - the state of a chain whose vouchers arrived under a version in which ibc-go did not yet write voucher metadata.  On this tree no receive can produce it: ibc-go v8 writes bank metadata for every voucher before the middleware runs and crosschain.ManyToOne then takes the voucher for a base denom (functional outage of bridged IBC tokens, modelled as 'always refused', reported separately)",
    "the derived sender accounts of memo calls are created beforehand with a bank transfer (keeper CallEVM refuses a sender without an account)",
    "a timeout is relayed in a context whose block time is past the packet's timeout (the localhost client reads the current block time); the block time is not part of the state",
    "native FX coming home is credited as the native coin (the EVM's own balance), every other token as ERC-20",
    "harness-private packet log under key prefix 0xFE of the erc20 store; every logged outbound packet is compared with the commitment IBC core stored",
]


def run(work, args):
    return graph_property(work, args, pid="C19", module="IbcTransfer", mcmodule="IbcTransferMC", pkg="ibctransfer", formulas=FORMULAS,
                          mc_cfgs=MC, gen_cfgs=GEN, reset_op=RESET, level_note="", design_ref="5/C19", assumptions=ASSUMPTIONS,
                          never_ok=("RecvReplay",))


specs.REGISTRY["C19"] = run
specs.MANIFEST["C19"] = dict(
    category="model_checking",
    technique="TLA+ spec IbcTransfer.tla (fxcore side of ICS-20 channels + the other chain as environment): TLC exhaustive model check + replay of every TLC-generated transition on the real IBC core/transfer/middleware/precompile stack over the localhost client + TLC evaluation of the C19 formulas on recorded real behaviours",
    text="Every inbound packet class (receiver bech32/hex; FX coming home, bridged alias, registered voucher, unknown voucher, the other chain's own token named FX with and without a registered pair, the same name behind a multi-hop path; memo none / not a call / call succeeding / call naming a local account as sender / call reverting) either credits exactly the amount to exactly the receiver (ERC-20 for everything but native FX) with a success acknowledgement, or changes no holding, backing balance or contract state with an error acknowledgement; the EVM sender of a memo call is the address derived from port, channel and packet sender and never a local account; every outbound transfer (crossChain precompile with FX value or ERC-20, MsgTransfer) is refunded exactly once, never refused, to its sender in the form it was taken from on error acknowledgement or timeout, under all interleavings with replays of every answer; the (channel, sequence) relation record exists exactly while an ERC-20 transfer started from the EVM is in flight; FX and T are conserved across holdings, escrow and parked vouchers.",
    note="bounded: 2 accounts, 1-2 channels, <=3 packets each way per channel, amounts 1-2; counterparty simulated over the localhost client (real proof verification, commitments, receipts, discard-on-error); parked vouchers of T built by a documented world shortcut; trusted: TLC, abstraction function (bank balances, balanceOf, IBC core store, erc20 store 0x04, recorder contract slot)",
    ref="5 (C19)")
