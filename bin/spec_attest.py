"""Attest.tla : C01, C02"""
import specs
from specs import graph_property

# =====================================================================================================
# Attest.tla : C01, C02
# =====================================================================================================
ATTEST_RESET = dict(name="Reset", o="none", b="none", s="none", n=0, v="none", set=[], res="ok")

ATTEST_FORMULAS = {
    "C01": dict(invariants=["C01_OneObservedPerNonce", "C01_ObservedInOrder", "C01_NoDoubleVote", "C01_EffectsAtMostOnce",
                            "C01_EffectsOnlyWhenObserved"],
                properties=["C01_StepByOne", "C01_VoteContiguous", "C01_VotesOnlyByClaim", "C01_ObservedStable",
                            "C01_EffectsOnlyByExecute"],
                p_properties=["P_C01_StepByOne", "P_C01_VoteContiguous", "P_C01_VotesOnlyByClaim", "P_C01_ObservedStable",
                              "P_C01_EffectsOnlyByExecute"]),
    "C02": dict(invariants=["C02_TotalPowerCoversOnline", "C02_NoOracleTwiceInTally", "IndexAgree"],
                properties=["C02_QuorumJustified", "C02_VoterIsOnlineBridgerAndSigner"],
                p_properties=["P_C02_QuorumJustified", "P_C02_VoterIsOnlineBridgerAndSigner"]),
}


def attest_consts(oracles, bridgers, maxnonce, mops, bonds, variants=("A", "B")):
    return dict(Oracle=oracles, Bridger=bridgers, Variant=list(variants), MaxNonce=maxnonce, MaxMops=mops, MaxBonds=bonds,
                Forger=bridgers[-1])


def attest_harness(chain, oracles, bridgers, maxnonce, stake, variants=("A", "B")):
    return dict(chain=chain, Oracle=oracles, Bridger=bridgers, Variant=list(variants), MaxNonce=maxnonce, Stake=stake)


O2, O3, B3, B4 = ["o1", "o2"], ["o1", "o2", "o3"], ["b1", "b2", "b3"], ["b1", "b2", "b3", "b4"]
STAKES = {"StakeEdge2": {"o1": 65, "o2": 35}, "StakeOdd2": {"o1": 100, "o2": 99}, "StakeEdge3": {"o1": 34, "o2": 33, "o3": 33}, "StakeEq": {"o1": 1, "o2": 1, "o3": 1}}

ATTEST_MC = [
    dict(name="mc2", tiers=["quick", "thorough"], consts=attest_consts(O2, B3, 2, 2, 3), overrides={"Stake": "StakeEdge2"}),
    dict(name="mc2odd", tiers=["quick", "thorough"], consts=attest_consts(O2, B3, 2, 2, 3), overrides={"Stake": "StakeOdd2"}),
    dict(name="mc3", tiers=["thorough"], consts=attest_consts(O3, B4, 1, 2, 4), overrides={"Stake": "StakeEdge3"}, timeout=2400),
]
ATTEST_GEN = [
    dict(name="gendev", tiers=["dev"], consts=attest_consts(O2, B3, 2, 1, 3), overrides={"Stake": "StakeEdge2"},
         harness=[attest_harness("eth", O2, B3, 2, STAKES["StakeEdge2"])], shards=14, rej_sample=2),
    # quick: two small families instead of one big one - (a) two nonces, competing claims, one membership operation;
    # (b) one nonce, two membership operations and a third bond (removal -> unbond -> re-approval -> re-bond -> vote again)
    dict(name="gen2a", tiers=["quick"], consts=attest_consts(O2, B3, 2, 1, 2), overrides={"Stake": "StakeEdge2"},
         harness=[attest_harness("eth", O2, B3, 2, STAKES["StakeEdge2"])], shards=14, rej_sample=3),
    dict(name="gen2b", tiers=["quick"], consts=attest_consts(O2, B3, 1, 2, 3), overrides={"Stake": "StakeEdge2"},
         harness=[attest_harness("eth", O2, B3, 1, STAKES["StakeEdge2"])], shards=14, rej_sample=0),
    dict(name="gen2odd", tiers=["quick", "thorough"], consts=attest_consts(O2, B3, 2, 1, 2), overrides={"Stake": "StakeOdd2"},
         harness=[attest_harness("eth", O2, B3, 2, STAKES["StakeOdd2"])], shards=14, rej_sample=2),
    dict(name="gen2full", tiers=["thorough"], consts=attest_consts(O2, B3, 2, 2, 3), overrides={"Stake": "StakeEdge2"},
         harness=[attest_harness("eth", O2, B3, 2, STAKES["StakeEdge2"]), attest_harness("tron", O2, B3, 2, STAKES["StakeEdge2"])],
         shards=16, rej_sample=0),
    dict(name="gen3", tiers=["thorough"], consts=attest_consts(O3, B4, 1, 1, 3), overrides={"Stake": "StakeEdge3"},
         harness=[attest_harness("eth", O3, B4, 1, STAKES["StakeEdge3"])], shards=16, rej_sample=0),
]


# C06 clause "the observed external height comes from the event the quorum observed": variant "H" is the deposit of
# "A" reported at another external height
ATTEST_GEN_HEIGHT = dict(name="gen2h", tiers=["quick", "thorough", "dev"], consts=attest_consts(O2, B3, 2, 1, 2, ("A", "H")), overrides={"Stake": "StakeOdd2"},
                         harness=[attest_harness("eth", O2, B3, 2, STAKES["StakeOdd2"], ("A", "H"))], shards=14, rej_sample=2)
ATTEST_MC_HEIGHT = dict(name="mc2h", tiers=["quick", "thorough", "dev"], consts=attest_consts(O2, B3, 2, 2, 3, ("A", "H")), overrides={"Stake": "StakeOdd2"})

O4, B5 = ["o1", "o2", "o3", "o4"], ["b1", "b2", "b3", "b4", "b5"]
REC_CONSTS = attest_consts(O4, B5, 4, 0, 0)
RECORDER = specs.make_recorder(module="Attest", mcmodule="AttestMC", pkg="attest", name="attest4", consts=REC_CONSTS, overrides={"Stake": "StakeRec"},
                               harness=attest_harness("eth", O4, B5, 4, {"o1": 40, "o2": 30, "o3": 20, "o4": 10}), reset_op=ATTEST_RESET,
                               tiers=["quick", "thorough", "dev"], walks=6, walklen=70, procs=8)


def attest(pid):
    def run(work, args):
        return graph_property(
            work, args, pid=pid, module="Attest", mcmodule="AttestMC", pkg="attest", formulas=ATTEST_FORMULAS[pid],
            mc_cfgs=ATTEST_MC, gen_cfgs=ATTEST_GEN, reset_op=ATTEST_RESET, recorder=RECORDER,
            level_note="", design_ref="5/C01-C02",
            assumptions=[
                "end-block slashing of an oracle is applied at keeper level (SlashOracle+SetLastTotalPower) in this spec; its cause is EndBlock.tla's subject",
                "MsgEditBridger is driven through the message server directly (its ValidateBasic cannot pass on this tree)",
                "variant A claims are MsgSendToFxClaim deposits of the FX bridge token; the last variant is a MsgBridgeCallClaim into a contract that counts its invocations and re-enters executeClaim for its own nonce; other claim types are covered by Outgoing/ClaimId specs",
                "the abstraction function reads the crosschain store prefixes 0x12 0x13 0x14 0x17 0x23 0x24 0x38 0x39 0x54 raw",
            ])
    return run


specs.REGISTRY["C01"] = attest("C01")
specs.REGISTRY["C02"] = attest("C02")

specs.MANIFEST.update({
 "C01": dict(category="model_checking", technique="TLA+ spec Attest.tla: TLC exhaustive model check + replay of every TLC-generated transition on the real keeper + TLC evaluation of the C01 formulas on recorded real behaviours",
             text="Attest.tla models claim attestation/oracle membership of one bridge module; TLC checks the C01 formulas (nonce advances by one, one observed variant per nonce, no double vote, no skipped nonce, parked claim effects at most once) on all interleavings of a bounded oracle population, and every generated transition (accepted and rejected operations) is executed on branches of the real multistore with the projected real state compared after each step; the same formulas are then evaluated by TLC on behaviours recorded from the real code.",
             note="bounded: 2-3 oracles, 2 nonces, 2 competing variants, <=2 membership operations; oracle slashing applied at keeper level; claims are SendToFx deposits; trusted: TLC, the abstraction function (raw store reads)", ref="5 (C01-C02)"),
 "C02": dict(category="model_checking", technique="TLA+ spec Attest.tla: TLC exhaustive model check + replay of every TLC-generated transition on the real keeper + TLC evaluation of the C02 formulas on recorded real behaviours",
             text="Same specification and binding as C01; formulas: an observation is justified by >=66% (as the code truncates) of the recorded total power summed over DISTINCT registered voters of that very variant, every vote is cast by the registered bridger of an online oracle who is also the transaction signer, recorded total power >= online power, no oracle twice in a tally. Stake distributions straddle the threshold (65/35, 34/33/33).",
             note="bounded oracle count (2-3), not 100; stake symbolic analysis not done; same trusted base as C01", ref="5 (C01-C02)"),
})
