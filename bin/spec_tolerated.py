"""Tolerated.tla : C18"""
import specs
from specs import graph_property

RESET = dict(name="Reset", b="none", fp="none", rf="none", mk="none", res="ok")
FORMULAS = dict(
    invariants=["C18_NoResidue", "C18_RefundsWellFormed"],
    properties=["C18_AttMarkedObserved", "C18_CallRefundExact", "C18_GovMarkedFailed", "C18_IbcErrorAck"],
    p_properties=["P_C18_AttMarkedObserved", "P_C18_CallRefundExact", "P_C18_GovMarkedFailed", "P_C18_IbcErrorAck"])

NGAS = 9  # opcode boundaries of the worker contract (PUSH1 PUSH1 SSTORE x3; the final STOP is free); the harness checks it
ATT = ["none", "exists", "fxdec", "oset"]
GOV = ["none", "first", "middle", "last", "midwrite"]
# a packet's two follow-ups are independent dimensions of the step: coin/receiver class x memo kind (every combination)
IBC = ["none", "fx", "alias", "unknown", "bech", "pairOff"]                 # "none": voucher with a pair (converted), "fx": native coin
IBC_MEMO = ["none", "text", "json", "call", "rev0", "rev1", "invalid"]      # none / ignored by design x2 / succeeds / fails x3
CALL_BASE = ["none", "revert0", "revert1", "inv0", "inv1", "under", "jump", "loop", "sct0", "sct1", "pair1", "pair2", "pair3", "unknown", "gaslow"]
CALL_Q = CALL_BASE + ["gas0", "gas4", "gas8"]                       # a few opcode boundaries
CALL_T = CALL_BASE + ["gas%d" % i for i in range(NGAS)]             # every executed opcode boundary
REFUND = ["rA", "rB"]


def consts(steps, call):
    return dict(MaxSteps=steps, AttFp=ATT, CallFp=call, GovFp=GOV, IbcFp=IBC, IbcMemo=IBC_MEMO, Refund=REFUND)


def cfg(name, tiers, c, shards=14, rej_sample=0, **kw):
    return dict(name=name, tiers=tiers, consts=c, harness=[dict(chain="x", MaxSteps=c["MaxSteps"], NGas=NGAS)], shards=shards,
                rej_sample=rej_sample, **kw)


MC = [
    dict(name="dev", tiers=["dev"], consts=consts(1, CALL_Q)),
    dict(name="q", tiers=["quick"], consts=consts(2, CALL_Q)),
    dict(name="t", tiers=["thorough"], consts=consts(4, CALL_T)),
]
GEN = [
    cfg("dev", ["dev"], consts(1, CALL_Q)),
    cfg("q", ["quick"], consts(2, CALL_Q)),
    cfg("t", ["thorough"], consts(4, CALL_T), shards=16),
]

ASSUMPTIONS = [
    "differential oracle on real stores: every failing step is executed twice from the same pre-state (branch A: the provoked failure; branch B: the same real code with a sub-step that fails at once - call target reverting immediately, first token pair disabled, first proposal message refused at its handler's first check, packet with an unparseable receiver - or, for the attestation boundary, a claim of the same nonce whose handler only parks it) and the complete multistore dumps are compared key by key",
    "masked keys (they carry the identity of the input and are checked by the boundary's own formula instead): attestation records and parked-claim keys of the eth module, the proposal's own record, the counterparty's packet commitment, the hash of the error acknowledgement (value only), the first token pair's record where branch B toggles it for the duration of the step, harness-private 0xFE keys",
    "attestation boundary: on this tree every handler failure happens before the handler's first write (bridge token exists / FX decimals / unknown oracle set); SendToFx, BridgeCall and BridgeCallResult claims are parked and belong to the call boundary",
    "call boundary: three registered bridge tokens with amounts 1,2,3; one honest oracle holds all power (observation = one claim); executeClaim through the real precompile in an EVM transaction; callees failing with VM errors other than REVERT (INVALID at once / after a write, stack underflow, bad jump, endless loop burning the whole limit); gas cuts at the opcode boundaries of a traced first run in the same pre-state bound the callee alone through the module's BridgeCallMaxGasLimit, under consensus parameters without a block gas limit (max_gas = -1) because keeper CallEVM replaces every limit by the block's maximum gas when one is set (then the callee always gets the block limit: the 'loop' callee); every claim carries the same external block height so that no bridge-call timeout fires",
    "gov boundary: MsgUpdateStore messages writing marker keys; both validators vote yes; the real x/gov EndBlocker runs at the end of the voting period",
    "ibc boundary: the C19 world (localhost loopback, real MsgRecvPacket through IBC core); every packet is the product of a coin/receiver class (voucher with a token pair, native coin, bridged alias, unknown token, bech32 receiver, pair disabled) and a memo kind (none, free text and non-call JSON - both ignored by design -, call that succeeds, callee reverting at once / after a write, invalid call packet); a packet is a tolerated failure as soon as either follow-up fails",
    "pair toggles are applied and taken back inside the step with the real governance-authority messages",
]


def run(work, args):
    return graph_property(work, args, pid="C18", module="Tolerated", mcmodule="ToleratedMC", pkg="tolerated", formulas=FORMULAS,
                          mc_cfgs=MC, gen_cfgs=GEN, reset_op=RESET, level_note="", design_ref="5/C18", assumptions=ASSUMPTIONS)


specs.REGISTRY["C18"] = run
specs.MANIFEST["C18"] = dict(
    category="model_checking",
    technique="TLA+ spec Tolerated.tla (four tolerated-failure boundaries, designated outcome per boundary) : TLC exhaustive model check + replay of every generated step on the real application with a differential full-store oracle (provoked failure vs designated outcome from the same pre-state) + TLC evaluation of the C18 formulas on recorded real behaviours",
    text="For the four places where fxcore continues after a failure (observed event whose handler fails; inbound bridge call whose contract call fails, through executeClaim; passed proposal one of whose messages fails; IBC packet whose conversion or memo call fails - each of the two follow-ups failing or not independently of the other, incl. a failed conversion followed by an ignored memo or by a call that would succeed -, through IBC core) and every failure point (first/middle/last token or message, message failing after its own write, contract reverting before/after its own writes (also through the send-call-to memo path), out of gas at opcode boundaries, token pair disabled, unknown token, invalid call packet, bech32 receiver) the complete multistore after the step equals the designated outcome produced from the same pre-state by the same code with a sub-step that fails at once (residue = 0 differing keys), and the designated outcome itself is right: event marked observed; exactly one refund record to the refund address with exactly the call's tokens while no party gains or loses a token and nothing stays parked; proposal marked failed; error acknowledgement, nothing credited and no memo call executed.",
    note="bounded: histories of <=2 (quick) / <=4 (thorough) steps, three-token calls, two refund addresses (funded / unfunded), gas limits at a few (quick) / all (thorough) opcode boundaries of one callee; attestation handlers of this tree cannot fail after a write; trusted: TLC, the store dump, the masks listed in the assumptions",
    ref="5 (C18)")
