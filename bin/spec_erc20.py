"""Erc20.tla : C08 (coin <-> ERC-20 conversion conserves value, token-pair books balanced)"""
import contextlib, io, json, os, time
import specs, vlib
from specs import graph_property
from vlib import Infra, log

RESET = dict(name="Reset", by="none", u="none", r="none", n=0, k="none", p=[], res="ok")
FORMULAS = dict(
    invariants=["C08_EscrowEqualsSupply", "C08_LockedEqualsCoinSupply", "C08_BalancesSumToSupply", "C08_CoinsAccounted",
                "C08_ValueConserved", "C08_IndexesAgree"],
    properties=["C08_MovesExactly", "C08_RefusedChangesNothing"],
    p_properties=["P_C08_MovesExactly", "P_C08_RefusedChangesNothing"])

# ---- the scenario of the known finding (DESIGN section 7 row 8).  Erc20.tla's InScenario(p) is the same predicate.
SCENARIO_ID = "OuterWriteThenNestedConvert"
OUTER_WRITES, NESTED = ["tr", "tf", "cc"], "bc"
PROPOSED_ENTRY = {
    "property": "C08", "id": SCENARIO_ID,
    "match": {"op": "RunProgram", "outer_write": OUTER_WRITES, "then": NESTED, "reverted": False},
    "what": "a contract that writes its own token balance through the running EVM (transfer / transferFrom / crossChain) and then "
            "calls the bridgeCall precompile for the same token in the same transaction: the precompile converts through keeper-level "
            "EVM calls on a NESTED state DB that does not see the caller's pending writes and whose commit the caller's writes then "
            "overwrite; tokens are duplicated (C08_BalancesSumToSupply, C08_ValueConserved false on the real behaviour)",
}


def program_matches(p, match):
    """p: list of {k, n}.  The program contains an outer write followed by the nested conversion and is not reverted."""
    ks = [s["k"] for s in p]
    if not ks:
        return False
    if (ks[-1] == "rv") != bool(match.get("reverted", False)):
        return False
    first = match.get("outer_write", [])
    then = match.get("then")
    return any(ks[i] in first and ks[j] == then for i in range(len(ks)) for j in range(i + 1, len(ks)))


def listed_finding(violation):
    """The listed known finding whose scenario the violating real path matches (None if there is none)."""
    steps = violation.get("steps") or []
    if not steps:
        return None
    op = steps[-1]["op"]      # the step that produced the first state / step on which a formula is false
    for f in vlib.known_findings():
        if not isinstance(f, dict) or f.get("property") != "C08":
            continue
        m = f.get("match", {})
        if op.get("name") == m.get("op", "RunProgram") and op.get("res") == "ok" and program_matches(op.get("p", []), m):
            return f
    return None


def what_fails(st, consts):
    """Which book equations are false on a projected real state (for the report line only; the verdict is TLC's)."""
    out = []
    kind = consts["Kind"]
    if sum(st["tok"].values()) != st["supply"]:
        out.append("balances sum to %d but totalSupply is %d" % (sum(st["tok"].values()), st["supply"]))
    if kind == "module" and st["coin"]["mod"]["b"] != st["supply"]:
        out.append("module escrow %d != totalSupply %d" % (st["coin"]["mod"]["b"], st["supply"]))
    if kind == "fx" and st["coin"]["wrap"]["b"] != st["supply"]:
        out.append("wrapper escrow %d != totalSupply %d" % (st["coin"]["wrap"]["b"], st["supply"]))
    if kind == "external":
        circ = sum(st["csupply"][d] - st["coin"]["mod"][d] for d in st["csupply"])
        if st["tok"]["mod"] != circ:
            out.append("module holds %d tokens for %d coins" % (st["tok"]["mod"], circ))
    tv = sum(st["tok"][h] + sum(st["coin"][h].values()) for h in ("u1", "u2", "exe")) + st["pool"] + st["calls"]
    if tv != consts["InitU1"] + consts["InitU2"]:
        out.append("value held + bridged out = %d, was %d" % (tv, consts["InitU1"] + consts["InitU2"]))
    return "; ".join(out) or "an action formula"


# ---- constants
USERS_EXE = ["u1", "u2", "exe"]
SPECIAL = ["u1", "mod", "wrap", "pre", "zero", "eth"]   # erc20 module account, token contract, precompile, zero address, eth module


def consts(kind, alias, pset, steps, plen, conv, tokn, gov, prog, u1=2, u2=1, amt=(1, 2), recv=USERS_EXE, trecv=USERS_EXE, soft=False, mortal=False):
    return dict(Kind=kind, HasAlias=alias, InitU1=u1, InitU2=u2, Amt=list(amt), RecvSet=list(recv), TRecvSet=list(trecv), ProgLen=plen, ProgSet=pset,
                Soft=soft, Mortal=mortal, MaxConv=conv, MaxTok=tokn, MaxGov=gov, MaxProg=prog), {"StepSet": steps}


def cfg(name, tiers, kind, alias, pset, steps, plen, conv, tokn, gov, prog, shards=14, rej_sample=0, explore=2, **kw):
    c, ov = consts(kind, alias, pset, steps, plen, conv, tokn, gov, prog, **kw)
    h = dict(chain=name, Kind=kind, HasAlias=alias, InitU1=c["InitU1"], InitU2=c["InitU2"], Soft=c["Soft"], Mortal=c["Mortal"])
    return dict(name=name, tiers=tiers, consts=c, overrides=ov, harness=[h], shards=shards, rej_sample=rej_sample, explore=explore)


KINDS = ["fx", "module", "external"]
MC, MAIN, KNOWN = [], [], []
for k in KINDS:
    # model checking: the complete program family (the model is the single-state semantics: the scenario programs conform to it)
    c, ov = consts(k, True, "all", "StepsQ", 2, 2, 1, 2, 1)
    MC.append(dict(name=k, tiers=["quick", "thorough"], consts=c, overrides=ov))
    c, ov = consts(k, True, "all", "StepsD", 2, 1, 1, 1, 1)
    MC.append(dict(name=k + "-dev", tiers=["dev"], consts=c, overrides=ov))
    c, ov = consts(k, True, "all", "StepsT", 3, 2, 1, 1, 1)
    MC.append(dict(name=k + "-len3", tiers=["thorough"], consts=c, overrides=ov, timeout=2400))
    c, ov = consts(k, True, "all", "StepsQ", 1, 3, 1, 2, 1)
    MC.append(dict(name=k + "-msgs", tiers=["thorough"], consts=c, overrides=ov, timeout=2400))
    c, ov = consts(k, False, "all", "StepsD", 2, 2, 1, 2, 1)
    MC.append(dict(name=k + "-noalias", tiers=["thorough"], consts=c, overrides=ov))
    # replay, everything outside the known scenario
    MAIN.append(cfg(k + "-dev", ["dev"], k, True, "main", "StepsD", 2, 1, 1, 1, 1, shards=6, rej_sample=3))
    MAIN.append(cfg(k, ["quick"], k, True, "main", "StepsQ", 2, 2, 1, 2, 1, rej_sample=4))
    MAIN.append(cfg(k + "-len2", ["thorough"], k, True, "main", "StepsQ", 2, 2, 1, 2, 1, shards=16))      # the quick graph, every rejected operation tried
    MAIN.append(cfg(k + "-msgs", ["thorough"], k, True, "main", "StepsQ", 1, 3, 1, 2, 1, shards=16))      # longer message histories, one-step programs
    MAIN.append(cfg(k + "-len3", ["thorough"], k, True, "main", "StepsT", 3, 1, 1, 1, 1, shards=16))      # three-step programs
    MAIN.append(cfg(k + "-noalias", ["thorough"], k, False, "main", "StepsD", 2, 2, 1, 2, 1, shards=16))  # the pair without alias / bridge denomination
    # special receivers: the erc20 module account, the token contract, the precompile address, the zero address, the eth module
    # account named as receiver of conversions and direct transfers; every rejected operation is tried (no sampling)
    c, ov = consts(k, True, "none", "StepsD", 1, 2, 1, 1, 0, amt=(1,), recv=SPECIAL, trecv=SPECIAL)
    MC.append(dict(name=k + "-recv", tiers=["dev", "quick"], consts=c, overrides=ov))
    MAIN.append(cfg(k + "-recv", ["dev", "quick"], k, True, "none", "StepsD", 1, 2, 1, 1, 0, shards=8, amt=(1,), recv=SPECIAL, trecv=SPECIAL))
    c, ov = consts(k, True, "none", "StepsD", 1, 2, 2, 1, 0, recv=SPECIAL, trecv=SPECIAL)
    MC.append(dict(name=k + "-recvT", tiers=["thorough"], consts=c, overrides=ov))
    MAIN.append(cfg(k + "-recvT", ["thorough"], k, True, "none", "StepsD", 1, 2, 2, 1, 0, shards=16, recv=SPECIAL, trecv=SPECIAL))
    # replay, the known scenario only
    KNOWN.append(cfg(k + "-known-dev", ["dev"], k, True, "known", "StepsD", 2, 1, 1, 1, 0, shards=4, rej_sample=1, explore=0))
    KNOWN.append(cfg(k + "-known", ["quick"], k, True, "known", "StepsQ", 2, 1, 1, 1, 0, shards=6, rej_sample=1, explore=0))
    KNOWN.append(cfg(k + "-known3", ["thorough"], k, True, "known", "StepsT", 3, 1, 1, 1, 0, shards=12, rej_sample=1, explore=0))
MAIN.append(cfg("module-noalias", ["quick"], "module", False, "main", "StepsD", 2, 1, 1, 1, 1, shards=8, rej_sample=4))


# ---- the externally-owned token as an ORDINARY third-party ERC-20 (harness/erc20/token.go) instead of FIP20: it answers false
# instead of reverting (Soft) and / or its owner can destroy it (Mortal: operation Kill, state component `dead`, the pair dropped by
# the next conversion message).  Every operation the specification rejects is tried (no sampling).
def tok_family(name, tiers, pset, steps, plen, conv, tokn, gov, prog, soft, mortal, shards=12, **kw):
    c, ov = consts("external", True, pset, steps, plen, conv, tokn, gov, prog, soft=soft, mortal=mortal, **kw)
    MC.append(dict(name=name, tiers=tiers, consts=c, overrides=ov, timeout=2400))
    MAIN.append(cfg(name, tiers, "external", True, pset, steps, plen, conv, tokn, gov, prog, shards=shards, rej_sample=0, soft=soft, mortal=mortal, **kw))


tok_family("external-tok-dev", ["dev"], "main", "StepsD", 1, 1, 1, 1, 1, True, True, shards=6)
tok_family("external-tok", ["quick"], "main", "StepsD", 2, 2, 1, 1, 1, True, True)
tok_family("external-soft", ["thorough"], "main", "StepsD", 2, 2, 1, 2, 1, True, False, shards=16)
tok_family("external-mortal", ["thorough"], "main", "StepsD", 2, 2, 1, 2, 1, False, True, shards=16)
tok_family("external-tok-msgs", ["thorough"], "main", "StepsQ", 1, 3, 1, 2, 1, True, True, shards=16)
tok_family("external-tok-recv", ["thorough"], "none", "StepsD", 1, 2, 1, 1, 0, True, True, shards=8, amt=(1,), recv=SPECIAL, trecv=SPECIAL)

ASSUMPTIONS = [
    "one token pair per world; kinds: fx (WFX wrapper, registered at genesis), module (MsgRegisterCoin of a bridged coin 'tkm' with bridge "
    "denomination eth0x.. in its metadata), external (FIP20 logic behind a proxy deployed and owned by an ordinary account, MsgRegisterERC20 "
    "with the bridge denomination as alias); registration, toggle and alias update are governance-authority messages through the real router",
    "initial holdings are minted directly: base coins of the users (module kind: plus the matching bridge coins locked in the eth module, "
    "which is what the deposits that create such coins leave behind); external kind: the owner mints through a real EVM transaction",
    "eth bridge module with one honest oracle; the FX bridge token and the pair's bridge token are observed MsgBridgeTokenClaim events",
    "programs: straight-line, executed by one executor contract (harness/evmasm) that holds tokens, program passed as call data, every CALL "
    "propagates failure; alphabet transfer(u2,n), approve(precompile,n), transferFrom(u1,exe,n), crossChain(token,n,fee 0,eth), "
    "bridgeCall(eth,[token],[n]), final REVERT; EVM transactions run at keeper level with gas price 0",
    "'supply of the coin' in C08_LockedEqualsCoinSupply excludes coins in the erc20 module's OWN account: MsgConvertDenom of an externally-owned "
    "pair locks the base coin there and mints the alias (custody, not a claim on the escrowed tokens)",
    "the crossChain precompile path does not consult the pair's enabled flag (modelled as the code does; the property does not mention it)",
    "the abstraction function reads erc20 store prefixes 0x01 0x02 0x03 0x05 raw, the base coin's bank metadata, bank balances/supply, "
    "totalSupply/balanceOf/allowance of the real contract, and the eth module's prefixes for the outgoing pool and outgoing bridge calls",
    "special receivers (erc20 module account, token contract, crosschain precompile address, zero address, eth module account) are named by "
    "conversions and direct transfers in a dedicated family; handing the escrowed asset to the pair's escrow account gratuitously (token transfer "
    "to the module of an externally-owned pair, the wrapper named as coin receiver of ConvertERC20) is recorded by the environment ledger `gift`, "
    "and the book equations read escrow = supply + gift",
    "several pairs: Erc20Reg.tla (two MsgRegisterCoin coins, one MsgRegisterERC20 token, alias sets from a shared pool incl. another pair's base "
    "denomination, MsgUpdateDenomAlias collisions), formulas C08_IndexesAgree / C08_RefusedChangesNothing of that module",
    "the externally-owned token as an ordinary third-party ERC-20 (families external-tok*, external-soft, external-mortal): a hand-assembled "
    "EIP-20 contract (harness/erc20/token.go; FIP20's selectors, no events) deployed by an ordinary account with the whole supply, which its "
    "owner hands out; Soft = transfer/transferFrom answer false and change nothing instead of reverting; Mortal = owner-only kill() "
    "(SELFDESTRUCT).  An account's direct token call counts as accepted only when the transaction did not revert AND the token answered true; "
    "kill(), deposit() and withdraw() sent to an address without code (which cannot fail and execute nothing) are reported as refused without "
    "being sent.  The environment ledger `lost` records the token balances outside the escrow that existed when the owner destroyed the contract",
    "a destroyed token: the book equation of the externally-owned pair and the alias-list/alias-index agreement for an UNREGISTERED coin are "
    "required only while the contract exists (the owner destroying it destroys the escrow; RemoveTokenPair leaves the coin's bank metadata, "
    "alias list included, behind); a conversion message accepted for a destroyed contract must move nothing (it only drops the pair)",
    "known finding %s: the scenario family (an in-EVM write to the executor's token balance followed by bridgeCall of the same token, not "
    "reverted) is replayed in a separate pass; everything else must hold with 0 deviations" % SCENARIO_ID,
]
# ---- Erc20Reg.tla: several pairs, registrations with alias sets from one pool, alias updates (clause "the denom, contract
# and alias indexes always describe the same set of pairs")
REG_RESET = dict(name="Reset", p="none", al="none", set={}, res="ok")
REG_FORMULAS = dict(invariants=["C08_IndexesAgree"], properties=["C08_RefusedChangesNothing"], p_properties=["P_C08_RefusedChangesNothing"])


def reg_cfg(name, tiers, pairs, free, maxops, shards=8):
    c = dict(Pair=pairs, Free=free, MaxOps=maxops)
    return dict(name=name, tiers=tiers, consts=c, harness=[dict(chain=name, Kind="reg", Pair=pairs, Free=free)], shards=shards, rej_sample=0, explore=2)


REG_GEN = [reg_cfg("reg-dev", ["dev"], ["c1", "c2"], ["x"], 2, shards=4),
           reg_cfg("reg", ["quick"], ["c1", "c2", "e"], ["x", "y"], 3),
           reg_cfg("regT", ["thorough"], ["c1", "c2", "e"], ["x", "y"], 5, shards=16)]
REG_MC = [dict(name=c["name"], tiers=c["tiers"], consts=c["consts"]) for c in REG_GEN]
REG_KW = dict(pid="C08", module="Erc20Reg", mcmodule="Erc20RegMC", pkg="erc20", formulas=REG_FORMULAS, reset_op=REG_RESET, level_note="", design_ref="5/C08")

ALL_OPS = ("Register", "Toggle", "UpdateAlias", "ConvertCoin", "ConvertERC20", "ConvertDenom", "Deposit", "Withdraw", "Transfer", "Approve",
           "TransferFrom", "RunProgram", "Kill")
KW = dict(pid="C08", module="Erc20", mcmodule="Erc20MC", pkg="erc20", formulas=FORMULAS, reset_op=RESET, level_note="", design_ref="5/C08")


def run_c08(work, args):
    # the models of this property are small (seconds on 4 workers): ask the machine-wide throttle for 4 slots per TLC run
    # instead of the generic 10, so that the check is not starved on a busy machine
    real = vlib.run_tlc
    vlib.run_tlc = lambda w, m, c, o, workers=16, **kw: real(w, m, c, o, workers=min(workers, 4), **kw)
    try:
        return _run_c08(work, args)
    finally:
        vlib.run_tlc = real


def _run_c08(work, args):
    tier = work.tier
    if getattr(args, "replay", None):
        doc = json.load(open(args.replay))
        if "Pair" in doc.get("consts", {}):     # a path of the registration family
            return graph_property(work, args, mc_cfgs=[], gen_cfgs=[], assumptions=ASSUMPTIONS, **REG_KW)
        buf = io.StringIO()
        with contextlib.redirect_stdout(buf):
            rc = graph_property(work, args, mc_cfgs=[], gen_cfgs=[], assumptions=ASSUMPTIONS, **KW)
        f = listed_finding(doc) if rc == 1 else None
        for line in buf.getvalue().splitlines():
            if line.startswith("VIOLATION") and f:
                log("KNOWN-FINDING: property=C08 %s reproduced by the replay: %s" % (f["id"], line[len("VIOLATION "):]))
            else:
                log(line)
        return 0 if f else rc
    only = os.environ.get("VERIF_C08_ONLY")      # development aid: only the configurations whose name contains this text
    if only:
        rc1, ev, viol1, dev1 = graph_property(work, args, mc_cfgs=[c for c in MC if any(o in c["name"] for o in only.split(","))],
                                              gen_cfgs=[c for c in MAIN if any(o in c["name"] for o in only.split(","))],
                                              assumptions=ASSUMPTIONS, write=False, never_ok=ALL_OPS, **KW)
        log("PARTIAL RUN (VERIF_C08_ONLY=%s): not a verdict on C08" % only)
        return specs.finish(work, "C08", ev, ASSUMPTIONS + ["PARTIAL RUN: only configurations matching %r" % only], viol1, dev1)
    # ---- pass 1: everything outside the known scenario; any violation here is a violation
    rc1, ev, viol1, dev1 = graph_property(work, args, mc_cfgs=MC, gen_cfgs=MAIN, assumptions=ASSUMPTIONS, write=False, **KW)
    if viol1:
        return specs.finish(work, "C08", ev, ASSUMPTIONS, viol1, dev1)
    # ---- pass 1b: several pairs (Erc20Reg.tla)
    rcr, evr, violr, devr = graph_property(work, args, mc_cfgs=REG_MC, gen_cfgs=REG_GEN, assumptions=[], write=False, **REG_KW)
    for k_ in ("states", "transitions", "traces_validated_against_impl", "real_transitions_replayed"):
        ev[k_] += evr[k_]
    for k_ in ("mc_runs", "gen_runs", "replay"):
        ev[k_] += evr[k_]
    ev["formulas"] += ["Erc20Reg!" + f for f in evr["formulas"]]
    ev["accepted_by_operation"].update({"reg." + k_: v for k_, v in evr["accepted_by_operation"].items()})
    ev["exhaustive"] = ev["exhaustive"] and evr["exhaustive"]
    dev1 += devr
    ev["deviations_from_spec"] = dev1
    if violr:
        return specs.finish(work, "C08", ev, ASSUMPTIONS, violr, dev1)
    # ---- pass 2: the known scenario only
    known = [c for c in KNOWN if tier in c["tiers"]]
    summary = dict(scenario=SCENARIO_ID, configs=[c["name"] for c in known])
    viol2 = None
    if known:
        old = os.environ.get("VERIF_MAXDEV")
        os.environ["VERIF_MAXDEV"] = "200"     # enumerate the family instead of stopping at the third deviation
        try:
            rc2, ev2, viol2, dev2 = graph_property(work, args, mc_cfgs=[], gen_cfgs=known, assumptions=[], write=False,
                                                   never_ok=("Register", "Toggle", "UpdateAlias", "ConvertCoin", "ConvertERC20", "ConvertDenom", "Deposit",
                                                             "Withdraw", "Transfer", "Approve", "TransferFrom", "RunProgram"), **KW)
        finally:
            if old is None:
                os.environ.pop("VERIF_MAXDEV", None)
            else:
                os.environ["VERIF_MAXDEV"] = old
        summary.update(real_transitions_replayed=ev2["real_transitions_replayed"], deviations=dev2, replay=ev2["replay"],
                       traces_evaluated=ev2["traces_validated_against_impl"])
        ev["real_transitions_replayed"] += ev2["real_transitions_replayed"]
        ev["traces_validated_against_impl"] += ev2["traces_validated_against_impl"]
        ev["gen_runs"] += ev2["gen_runs"]
        if viol2:
            f = listed_finding(viol2)
            last = viol2["steps"][-1]
            prog = " ".join("%s%d" % (s["k"], s["n"]) for s in last["op"].get("p", []))
            summary.update(formula=viol2["formula"], program=prog, kind=viol2["consts"]["Kind"], listed_in_known_findings=bool(f))
            if f:
                path = vlib.save_replay(work, "known-" + SCENARIO_ID, dict(viol2, known_scenario=SCENARIO_ID))
                summary["replay_file"] = path
                log("KNOWN-FINDING: property=C08 %s: %s false on the real code after one transaction [%s] of a contract holding tokens (pair kind %s): %s; "
                    "%d scenario transactions deviate from the single-state semantics; replay=%s"
                    % (f["id"], viol2["formula"], prog, viol2["consts"]["Kind"], what_fails(last["st"], viol2["consts"]), dev2, path))
                viol2 = None
            else:
                log("the violating real path is not the scenario of any finding listed in known_findings.json; to list it add: " + json.dumps(PROPOSED_ENTRY))
        elif dev2:
            log("scenario %s: %d transactions deviate from the specification but none of C08's formulas is false on them" % (SCENARIO_ID, dev2))
        else:
            log("scenario %s: not reproduced on this tree (all %d scenario configurations conform)" % (SCENARIO_ID, len(known)))
    ev["known_scenario_pass"] = summary
    return specs.finish(work, "C08", ev, ASSUMPTIONS, viol2, dev1)


specs.REGISTRY["C08"] = run_c08

specs.MANIFEST["C08"] = dict(
    category="model_checking",
    technique="TLA+ spec Erc20.tla (one token pair per kind: native coin behind the wrapper, module-owned, externally-owned; contract programs "
              "given their single-state EVM meaning): TLC exhaustive model check + replay of every TLC-generated transition on the real "
              "application (message router, real EVM transactions of an executor contract holding tokens) + TLC evaluation of the C08 formulas "
              "on the recorded real behaviours",
    text="Erc20.tla models coin and ERC-20 balances of two accounts, an executor contract, the erc20 module account, the token contract and the "
         "bridge module, total supply, allowances, the pair record with its by-denom / by-token / alias indexes and the bank-metadata aliases, "
         "for each pair kind with 0-1 alias denomination. Operations: ConvertCoin, ConvertERC20, ConvertDenom, wrapper deposit/withdraw, register, "
         "toggle, alias update, direct transfer/approve/transferFrom, and RunProgram(p) for all straight-line programs (<=2 steps quick, <=3 "
         "thorough) over {transfer, approve, transferFrom, crossChain, bridgeCall, final REVERT} executed by a token-holding contract in one "
         "transaction. Formulas: escrow = total supply (module-owned / wrapper), escrowed tokens = circulating coin supply over all denominations "
         "(externally-owned), balances sum to total supply, all coins accounted for, value conserved, a conversion moves exactly n from sender "
         "to receiver, a refused operation changes nothing, the three indexes and the metadata aliases agree (no index entry survives its pair). "
         "The externally-owned token is also taken as an ordinary third-party ERC-20 (hand-assembled): one that answers false instead of "
         "reverting (Soft) and one its owner can destroy (Mortal: operation Kill, state component dead; the next conversion message drops the "
         "pair and must move nothing). Programs inside the known scenario "
         "OuterWriteThenNestedConvert are replayed in a separate pass and reported as KNOWN-FINDING when listed.",
    note="bounded: 3 user-side holders, amounts 1-2, <=3 conversions, <=2 token calls, <=2 governance operations, one program per history; "
         "initial coins minted directly; one bridge module (eth); trusted: TLC, the abstraction function (raw store reads + contract queries), "
         "the hand-assembled executor contract",
    ref="5 (C08)")
