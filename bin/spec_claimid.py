"""ClaimId.tla : C03 (the executed event is field-for-field the event the quorum voted for)"""
import os
import specs
from specs import graph_property

CLAIMID_RESET = dict(name="Reset", o="none", v="none", res="ok")

CLAIMID_FORMULAS = dict(
    invariants=["C03_TalliedTogetherOnlyIfEqual", "C03_ExecutedIsWhatQuorumVotedFor"],
    properties=["C03_NoCrossCredit", "C03_ExecutedStable"],
    p_properties=["P_C03_NoCrossCredit", "P_C03_ExecutedStable"])

# Variant names per claim type; the table name -> real claim object is harness/claimid/variants.go
# (the adapter refuses to start when the two differ).  BAD = variants whose execution panics.
VARIANTS = {
    "SendToFx": ["base", "height", "token", "amount", "amount_zero", "sender", "receiver", "target_erc20", "target_other"],
    "BridgeCall": ["base", "height", "sender", "refund", "to", "to_eoa", "tx_origin", "token_changed", "tokens_added",
                   "tokens_removed", "tokens_empty", "tokens_reordered", "amount_changed", "amounts_reordered", "data",
                   "data_empty", "memo", "memo_sendcallto", "value", "resplit_data_memo_1", "resplit_data_memo_2",
                   # re-splits across every boundary of the hash input where both renderings can stay valid
                   "resplit_amounts_a", "resplit_amounts_b", "resplit_amount_data_a", "resplit_amount_data_b",
                   "resplit_data_value_a", "resplit_data_value_b", "resplit_data_value_c", "resplit_data_value_d",
                   "resplit_value_memo_a", "resplit_value_memo_b"],
    "BridgeCallResult": ["base", "height", "call_nonce", "tx_origin", "success", "cause", "cause_empty"],
    "SendToExternal": ["base", "height", "batch_nonce", "token", "batch_nonce_unknown"],
    "BridgeToken": ["base", "height", "token", "name", "symbol", "decimals", "channel_ibc", "resplit_name_symbol",
                    "name_with_slash_end", "symbol_with_slash_start", "resplit_symbol_decimals",
                    "resplit_decimals_channel_a", "resplit_decimals_channel_b"],
    "OracleSet": ["base", "height", "set_nonce", "member_power", "member_address", "member_added", "member_removed",
                  "members_reordered", "resplit_height_setnonce_a", "resplit_height_setnonce_b", "set_nonce_wrong_members"],
}
BAD = {"SendToExternal": ["token", "batch_nonce_unknown"], "OracleSet": ["set_nonce_wrong_members"]}
PARKED = ("SendToFx", "BridgeCall", "BridgeCallResult")
TYPES = ["SendToFx", "BridgeCall", "BridgeCallResult", "SendToExternal", "BridgeToken", "OracleSet"]
O3 = ["o1", "o2", "o3"]
STAKE = {"o1": 34, "o2": 33, "o3": 33}


def consts(ct, max_other):
    return dict(Oracle=O3, Variant=VARIANTS[ct], BadVariant=BAD.get(ct, []), ClaimType=ct, MaxOther=max_other)


def harness(chain, ct):
    return dict(chain=chain, ClaimType=ct, Oracle=O3, Variant=VARIANTS[ct], BadVariant=BAD.get(ct, []), Stake=STAKE)


OV = {"Stake": "StakeEdge3"}
CLAIMID_MC, CLAIMID_GEN = [], []
for ct in TYPES:
    never = () if ct in PARKED else ("Execute",)
    # design check: any two (quick) / three (thorough) contents besides base may compete
    CLAIMID_MC.append(dict(name="mc2-" + ct, tiers=["quick"] + (["dev"] if ct == "BridgeToken" else []),
                           consts=consts(ct, 2), overrides=OV, timeout=600))
    CLAIMID_MC.append(dict(name="mc3-" + ct, tiers=["thorough"], consts=consts(ct, 3), overrides=OV, timeout=900))
    if ct in ("BridgeToken", "BridgeCallResult"):
        CLAIMID_GEN.append(dict(name="dev-" + ct, tiers=["dev"], consts=consts(ct, 1), overrides=OV,
                                harness=[harness("eth", ct)], shards=8, rej_sample=2, may_never_succeed=never))
    # quick: base against every other content (and every ordered pair of contents at depth 2), all vote orders, eth
    CLAIMID_GEN.append(dict(name="q-" + ct, tiers=["quick"], consts=consts(ct, 1), overrides=OV,
                            harness=[harness("eth", ct)], shards=14, rej_sample=3, explore=2, may_never_succeed=never))
    # thorough: any two contents besides base compete, all vote orders, eth and tron
    # (BridgeCall has 31 contents: operations the specification rejects - second votes of an oracle - are sampled, 8 per state)
    CLAIMID_GEN.append(dict(name="t-" + ct, tiers=["thorough"], consts=consts(ct, 2), overrides=OV,
                            harness=[harness("eth", ct), harness("tron", ct)], shards=16, rej_sample=8 if ct == "BridgeCall" else 0,
                            explore=2, may_never_succeed=never))


def claimid(pid):
    def run(work, args):
        # after a deviation the real behaviour is explored 2 steps further (Execute, late votes), within a small budget
        os.environ.setdefault("VERIF_EXPLORE_BUDGET", "300")
        return graph_property(
            work, args, pid=pid, module="ClaimId", mcmodule="ClaimIdMC", pkg="claimid", formulas=CLAIMID_FORMULAS,
            mc_cfgs=CLAIMID_MC, gen_cfgs=CLAIMID_GEN, reset_op=CLAIMID_RESET,
            level_note="", design_ref="5/C03",
            assumptions=[
                "one event nonce, three bonded oracles with stakes 34/33/33 (any two reach the 66% bar); claim contents are the finite variant tables of harness/claimid/variants.go (one variant per field and value class, re-splits of adjacent free-form strings), not all field values",
                "which content each oracle submitted is recorded by the harness in the crosschain KV store under the unused prefix 0xFE inside the branch the vote was executed on (cache contexts carry it along); the real code never reads that prefix",
                "the effect applied is identified by comparing a digest of ALL KV stores (minus attestation bookkeeping 0x17 0x23 0x35 0x54 0xFE) with the digest after a unanimous quorum for each content, computed on the same real code at start-up; contents whose effects are byte-identical on this tree (e.g. tx_origin, cause, token name) are told apart by the claim stored in the observed attestation record",
                "world built through governance messages, user messages (MsgSendToExternal, MsgRequestBatch, MsgBridgeCall), the module's EndBlocker (oracle set request) and unanimously observed claims; block height advanced by deriving contexts (one batch per block); the callback sender account is funded by the mint module so that a bridge call with value can pay",
                "IBC targets of MsgSendToFxClaim are not exercised (no channel in the harness world)",
                "executeClaim is driven through a keeper-level EVM transaction to the crosschain precompile, atomically (a refused call leaves no trace)",
            ])
    return run


specs.REGISTRY["C03"] = claimid("C03")

specs.MANIFEST.update({
 "C03": dict(category="model_checking", technique="TLA+ spec ClaimId.tla: TLC exhaustive model check + replay of every TLC-generated transition (votes with per-voter claim contents, executeClaim) on the real keeper for all six claim types + TLC evaluation of the C03 formulas on recorded real behaviours",
             text="ClaimId.tla models one event nonce voted on by three oracles, each submitting one of a table of claim contents (base plus one variant per field and value class of the claim type, list operations, empty/non-empty, re-splits of adjacent free-form strings incl. the '/' separator); in the design every content is its own tally. TLC enumerates every assignment of contents to voters in every vote order; each transition is executed through the real MsgClaim handler / executeClaim precompile on branches of the real multistore, and the attestation records, the parked claim and the effect actually applied (digest of all stores against the unanimous reference) are projected back and compared. Formulas: votes tallied together only if the voters submitted the same content; the observed/parked/executed content was submitted by a quorum; a vote is credited to its own content's tally only; executed content never changes.",
             note="bounded: 3 oracles, one nonce, 5-31 contents per claim type (finite value classes, not all values), at most 1 (quick) / 2 (thorough) non-base contents competing per behaviour beyond single edges; IBC targets not exercised; trusted: TLC, the abstraction function (raw store reads, whole-store digest), the harness marker keys", ref="5 (C03)"),
})
