"""Gov.tla : C15 (governance deposits conserved, proposals follow their message-type rules)"""
import specs
from specs import graph_property

GOV_RESET = dict(name="Reset", a="none", p=0, t="none", e=False, n=0, dn="none", o="none", res="ok")

GOV_FORMULAS = {
    "C15": dict(invariants=["C15_GovHoldsOpenDeposits", "C15_DepositRecordsMatch", "C15_VotingHasBaseMin",
                            "C15_OneTypePerProposal", "C15_MessagesAllOrNothing"],
                properties=["C15_DepositSettledOnce", "C15_VotingOnlyWithMinDeposit", "C15_PeriodAndQuorumByType",
                            "C15_MixedRefused"],
                p_properties=["P_C15_DepositSettledOnce", "P_C15_VotingOnlyWithMinDeposit", "P_C15_PeriodAndQuorumByType",
                              "P_C15_MixedRefused"]),
}

ALLT = ["text", "spend", "custom", "mixed"]


def consts(*, submitter=("a",), types=ALLT, exp=(False, True), init=(1, 2), damts=(1, 2), depositors=("a", "b"),
           voters=("v1", "d"), denoms=("fx", "other"), opts=("yes", "no", "veto"), variants=("A",),
           ctypes=("spend", "custom"), maxprop=1, maxdep=3, depperiod=1, burn=(True, False, True)):
    return dict(Submitter=list(submitter), Types=list(types), ExpSet=list(exp), InitAmts=list(init), DepAmts=list(damts),
                Depositors=list(depositors), Voters=list(voters), Denoms=list(denoms), VoteOpts=list(opts),
                Variants=list(variants), CTypes=list(ctypes), MaxProp=maxprop, MaxDep=maxdep, DepPeriod=depperiod,
                BurnPrevote=burn[0], BurnQuorum=burn[1], BurnVeto=burn[2])


def harness(c):
    return dict(chain="gov", MaxProp=c["MaxProp"], DepPeriod=c["DepPeriod"], BurnPrevote=c["BurnPrevote"],
                BurnQuorum=c["BurnQuorum"], BurnVeto=c["BurnVeto"])


# one proposal, every message type, expedited or not, all deposit/vote/custom-parameter interleavings
ONE = consts()
# two concurrent proposals (pool spends and text), deposits by a second depositor, the spend type's custom
# parameters added/removed in between, both may pass: the second spend then fails for lack of pool funds
TWO = consts(types=("spend", "text"), exp=(False,), init=(2,), damts=(1,), depositors=("b",), voters=("v1",), denoms=("fx",),
             opts=("yes",), ctypes=("spend",), maxprop=2, maxdep=2)
# community-pool-spend minimum deposit: requested amount below the default minimum ("small", 1 unit), inside
# [default, default/ratio) (spend of 4 with ratio .25; expedited default 4 with ratio .75) and >= default/ratio
# (spend of 4 with ratio .75), regular and expedited, custom ratio set/changed/removed between deposits; v1 may vote yes
EGF = consts(types=("spend", "small"), exp=(False, True), init=(1, 2), damts=(1, 2), depositors=("b",), voters=("v1",), denoms=("fx",),
             opts=("yes",), variants=("A", "B"), ctypes=("spend",), maxprop=1, maxdep=3)
DEV = consts(types=("spend", "mixed"), exp=(False,), init=(2,), damts=(1,), depositors=("b",), voters=("v1",), denoms=("fx",),
             opts=("yes",), ctypes=("spend",), maxprop=1, maxdep=2)

# thorough
ONE_FULL = consts(submitter=("a",), init=(0, 1, 2), opts=("yes", "no", "veto", "abstain", "split"), variants=("A", "B"), depperiod=2,
                  burn=(False, True, False))
ONE_FULL2 = consts(submitter=("b",), variants=("A", "B"))
# two concurrent proposals: pool spend + a type with custom parameters, vetoes (burn), custom params on both types
TWO_MIX = consts(types=("spend", "custom"), exp=(False,), init=(2,), damts=(1,), depositors=("b",), voters=("v1",), denoms=("fx",),
                 opts=("yes", "veto"), ctypes=("spend", "custom"), maxprop=2, maxdep=3)
# two concurrent pool spends, expedited or not (fallback to regular while the other one is open)
TWO_EXP = consts(types=("spend",), exp=(False, True), init=(2, 4), damts=(2,), depositors=("b",), voters=("v1",), denoms=("fx",),
                 opts=("yes", "no"), ctypes=("spend",), maxprop=2, maxdep=4)
TWO_B = consts(types=("spend", "text"), exp=(False,), init=(1, 2), damts=(1,), depositors=("b",), voters=("v1",), denoms=("fx",),
               opts=("yes",), ctypes=("spend",), maxprop=2, maxdep=2, burn=(False, True, False))

GOV_MC = [
    dict(name="one", tiers=["quick", "thorough"], consts=ONE),
    dict(name="two", tiers=["quick", "thorough"], consts=TWO),
    dict(name="egf", tiers=["quick", "thorough"], consts=EGF),
    dict(name="dev", tiers=["dev"], consts=DEV),
    dict(name="onefull", tiers=["thorough"], consts=ONE_FULL, timeout=2400),
    dict(name="onefull2", tiers=["thorough"], consts=ONE_FULL2, timeout=2400),
    dict(name="twomix", tiers=["thorough"], consts=TWO_MIX, timeout=2400),
    dict(name="twoexp", tiers=["thorough"], consts=TWO_EXP, timeout=2400),
    dict(name="twob", tiers=["thorough"], consts=TWO_B, timeout=2400),
]


def gen(name, tiers, c, shards, rej):
    return dict(name=name, tiers=tiers, consts=c, harness=[harness(c)], shards=shards, rej_sample=rej)


GOV_GEN = [
    gen("dev", ["dev"], DEV, 4, 2),
    gen("one", ["quick"], ONE, 14, 2),
    gen("two", ["quick"], TWO, 14, 2),
    gen("egf", ["quick"], EGF, 14, 3),
    gen("egf", ["thorough"], EGF, 16, 0),
    gen("one", ["thorough"], ONE, 16, 10),
    gen("two", ["thorough"], TWO, 16, 0),
    gen("onefull", ["thorough"], ONE_FULL, 16, 3),
    gen("onefull2", ["thorough"], ONE_FULL2, 16, 3),
    gen("twomix", ["thorough"], TWO_MIX, 16, 2),
    gen("twoexp", ["thorough"], TWO_EXP, 16, 2),
    gen("twob", ["thorough"], TWO_B, 16, 3),
]


def gov(pid):
    def run(work, args):
        return graph_property(
            work, args, pid=pid, module="Gov", mcmodule="GovMC", pkg="gov", formulas=GOV_FORMULAS[pid],
            mc_cfgs=GOV_MC, gen_cfgs=GOV_GEN, reset_op=GOV_RESET, level_note="", design_ref="5/C15",
            assumptions=[
                "messages are routed through the application's MsgServiceRouter with ValidateBasic and per-message atomicity (world.Handle), not through signed transactions in real blocks",
                "Tick runs the real fx gov EndBlocker (x/gov/abci.go) on a branch of the multistore and then moves block time one slot (1h) forward; other modules' begin/end blockers are not run",
                "world built by real messages: gov MsgUpdateParams (min deposit 20 FX, expedited 40 FX, ratios 0.5, periods 1-3 slots, quorum 0.5), MsgUpdateCustomParams, MsgDelegate, MsgFundCommunityPool; validators come from the test genesis (100 FX each)",
                "message types: text (no message), community-pool spend (two spends 1+3 units to fresh addresses, pool 5 units; 'small' = one spend of 1 unit, below the default minimum deposit of 2), 'custom' = two fx gov MsgUpdateStore writing marker keys, mixed = one of each",
                "MsgCancelProposal (SDK) is not exercised: the property's quantifier lists submit, deposit, vote, time and custom parameters",
                "PeriodAndQuorumByType quantifies over non-expedited proposals only (the property does not fix the period of an expedited proposal of a configured type)",
                "the abstraction function reads the gov collections (proposals, deposits, votes, both queues, voting index, custom params 0x93), bank balances/supply, the distribution fee pool and the marker keys",
            ])
    return run


specs.REGISTRY["C15"] = gov("C15")

specs.MANIFEST.update({
 "C15": dict(category="model_checking", technique="TLA+ spec Gov.tla: TLC exhaustive model check + replay of every TLC-generated transition on the real gov module (real messages through the message router, real gov EndBlocker) + TLC evaluation of the C15 formulas on recorded real behaviours",
             text="Gov.tla models submit/deposit/vote/custom-parameter updates and block ends over up to two concurrent proposals of the message types text, community-pool spend, a type with custom parameters and a mixed-type proposal, expedited or not; TLC checks: the gov account holds exactly the open proposals' deposits, every closing proposal's deposits are refunded to their depositors or burned exactly once, voting starts only at the type's minimum deposit (incl. the community-pool-spend share rule), non-expedited proposals get the type's voting period at activation and the type's quorum at tally, one type per proposal, messages all-or-nothing. Every generated transition is executed on the real application and the projected state compared; the formulas are then evaluated on the recorded real behaviours.",
             note="bounded: <=2 proposals, 2 depositors, validator operator + one delegator (a second validator silent), deposits of 1-2 units, two custom-parameter variants; messages via the router without signatures; only the gov EndBlocker runs at a block end; MsgCancelProposal not exercised; trusted: TLC, the abstraction function", ref="5 (C15)"),
})
